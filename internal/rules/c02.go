package rules

import (
	"go/constant"
	"go/token"
	"go/types"
	"math/big"
	"sort"
	"strings"

	gast "github.com/vektah/gqlparser/v2/ast"

	"golang.org/x/tools/go/ssa"

	"verif/internal/an"
)

func init() {
	register(&Property{
		ID:      "C02",
		NeedGen: true,
		Runtime: RuntimeCore,
		Run:     runC02,
		Explanation: "Error discipline and table agreement of input coercion: (lossy-conv) every narrowing or sign-changing integer conversion in graphql.Unmarshal*/safeCast* is edge-dominated by range tests of the same value " +
			"against constants inside the target type's range (amd64; thorough also 386); (arg-error-blocks-resolver) in every generated field function the resolver/middleware call is edge-dominated by err == nil of the " +
			"argument coercion, and in every generated args/input/unmarshal function each fallible callee's error is tested and its failure edge only reaches non-nil error returns; (input-table) each generated " +
			"unmarshalInput's fieldsInOrder table and `switch k` case set equal the SDL's input fields in SDL order, and defaults are injected only under !present; (enum-closed) each generated enum's IsValid case set " +
			"equals its constants and the SDL values, and UnmarshalGQL returns an error on the !IsValid and non-string edges. (list-null-vs-empty) a generated list unmarshaler returns a nil slice with a nil error only on the edge where its raw input is nil.",
		NotDecided:  "equality of coerced values with the spec (CoerceList, default values' contents, Omittable set/unset semantics, custom scalars) — value-level",
		Assumptions: []string{"client integers arrive as json.Number/string/int/int64 as produced by gqlparser and encoding/json"},
	})
}

func runC02(c *Ctx) {
	lossyConv(c, "C02")
	c02Gen(c)
}

func intRange(t types.Type, sizes types.Sizes) (lo, hi *big.Int, signed bool, ok bool) {
	b, isB := t.Underlying().(*types.Basic)
	if !isB || b.Info()&types.IsInteger == 0 {
		return nil, nil, false, false
	}
	bits := uint(sizes.Sizeof(t) * 8)
	signed = b.Info()&types.IsUnsigned == 0
	one := big.NewInt(1)
	if signed {
		hi = new(big.Int).Sub(new(big.Int).Lsh(one, bits-1), one)
		lo = new(big.Int).Neg(new(big.Int).Lsh(one, bits-1))
	} else {
		lo = big.NewInt(0)
		hi = new(big.Int).Sub(new(big.Int).Lsh(one, bits), one)
	}
	return lo, hi, signed, true
}

func constBig(v ssa.Value) (*big.Int, bool) {
	cv, ok := v.(*ssa.Const)
	if !ok || cv.Value == nil {
		return nil, false
	}
	val := constant.ToInt(cv.Value)
	if val.Kind() != constant.Int {
		return nil, false
	}
	if i, exact := constant.Int64Val(val); exact {
		return big.NewInt(i), true
	}
	if u, exact := constant.Uint64Val(val); exact {
		return new(big.Int).SetUint64(u), true
	}
	return nil, false
}

// lossyConv is shared by C02 and C08.
func lossyConv(c *Ctx, prop string) {
	c.R.Rule("lossy-conv", "every integer Convert in graphql.Unmarshal* / Marshal* / safeCast* (and their lower-case helpers) whose target type cannot represent every value of the source type is edge-dominated by comparisons of the same value with constants that confine it to the target's range", 14)
	worlds := []struct {
		arch  string
		funcs []*ssa.Function
		sizes types.Sizes
		pos   func(ssa.Instruction) string
	}{{"amd64", c.moduleFuncs(func(p string) bool { return p == pkgGraphql }), types.SizesFor("gc", "amd64"), c.ipos}}
	if c.Tier == "thorough" && c.Alt386 != nil {
		w := c.Alt386()
		if w != nil {
			c2 := &Ctx{W: w, R: c.R, Tier: c.Tier}
			worlds = append(worlds, struct {
				arch  string
				funcs []*ssa.Function
				sizes types.Sizes
				pos   func(ssa.Instruction) string
			}{"386", c2.moduleFuncs(func(p string) bool { return p == pkgGraphql }), types.SizesFor("gc", "386"), c2.ipos})
		}
	}
	for _, w := range worlds {
		for _, fn := range w.funcs {
			top := topFn(fn)
			if top.Signature.Recv() != nil || !isScalarCodecName(top.Name()) {
				continue
			}
			for _, b := range fn.Blocks {
				for _, in := range b.Instrs {
					cv, ok := in.(*ssa.Convert)
					if !ok {
						continue
					}
					slo, shi, _, ok1 := intRange(cv.X.Type(), w.sizes)
					dlo, dhi, _, ok2 := intRange(cv.Type(), w.sizes)
					if !ok1 || !ok2 {
						continue
					}
					key := w.arch + ":" + top.Name() + "/" + cv.X.Type().String() + "→" + cv.Type().String()
					needLo := slo.Cmp(dlo) < 0
					needHi := shi.Cmp(dhi) > 0
					if !needLo && !needHi {
						c.R.OKTrivial(key, w.pos(cv), "target represents every source value")
						continue
					}
					haveLo, haveHi := !needLo, !needHi
					tooStrict := ""
					for _, f := range an.Facts(cv) {
						x, y, op := f.X, f.Y, f.Op
						if x == nil || y == nil {
							continue
						}
						// round-trip test: `S(T(v)) == v` holds exactly when v is representable in T (truncate and extend)
						if op == token.EQL {
							for _, pr := range [][2]ssa.Value{{x, y}, {y, x}} {
								back, ok := pr[0].(*ssa.Convert)
								if !ok || !an.SameVar(pr[1], cv.X) && pr[1] != cv.X {
									continue
								}
								narrow, ok := back.X.(*ssa.Convert)
								if ok && types.Identical(narrow.Type(), cv.Type()) && (narrow.X == cv.X || an.SameVar(narrow.X, cv.X)) && types.Identical(back.Type(), cv.X.Type()) {
									haveLo, haveHi = true, true
								}
							}
						}
						if _, isC := constBig(x); isC { // mirror: const on the left
							x, y = y, x
							switch op {
							case token.LSS:
								op = token.GTR
							case token.GTR:
								op = token.LSS
							case token.LEQ:
								op = token.GEQ
							case token.GEQ:
								op = token.LEQ
							}
						}
						k, isC := constBig(y)
						if !isC || !an.SameVar(x, cv.X) {
							continue
						}
						switch op {
						case token.GEQ:
							if k.Cmp(dlo) >= 0 {
								haveLo = true
								if needLo && k.Cmp(dlo) > 0 {
									tooStrict = "lower bound " + k.String() + " excludes representable values down to " + dlo.String()
								}
							}
						case token.GTR:
							if kk := new(big.Int).Add(k, big.NewInt(1)); kk.Cmp(dlo) >= 0 {
								haveLo = true
								if needLo && kk.Cmp(dlo) > 0 {
									tooStrict = "lower bound " + kk.String() + " excludes representable values down to " + dlo.String()
								}
							}
						case token.LEQ:
							if k.Cmp(dhi) <= 0 {
								haveHi = true
								if needHi && k.Cmp(dhi) < 0 {
									tooStrict = "upper bound " + k.String() + " excludes representable values up to " + dhi.String()
								}
							}
						case token.LSS:
							if kk := new(big.Int).Sub(k, big.NewInt(1)); kk.Cmp(dhi) <= 0 {
								haveHi = true
								if needHi && kk.Cmp(dhi) < 0 {
									tooStrict = "upper bound " + kk.String() + " excludes representable values up to " + dhi.String()
								}
							}
						}
					}
					if !(haveLo && haveHi) && roundTripChecked(cv) {
						// `n := T(v); if S(n) != v { fail }; use n`: converted first, every other use behind the round-trip test
						haveLo, haveHi = true, true
					}
					if haveLo && haveHi && tooStrict != "" {
						c.R.Bad(key, w.pos(cv), "the range test before the conversion is stricter than "+cv.Type().String()+"'s range ("+tooStrict+"): a valid input is rejected instead of being delivered")
						continue
					}
					c.R.Check(haveLo && haveHi, key, w.pos(cv), "range-tested before the conversion (bounds exact)",
						sprintf("lossy integer conversion without a dominating range test (lower bound needed=%v present=%v, upper bound needed=%v present=%v): an input outside %s's range is silently changed into a different number", needLo, haveLo, needHi, haveHi, cv.Type().String()))
				}
			}
		}
	}
}

// isScalarCodecName: the built-in scalar readers and writers of package graphql and their helpers (Unmarshal*, Marshal*,
// unmarshal*/marshal* helpers, safeCast*).
func isScalarCodecName(n string) bool {
	l := strings.ToLower(n)
	return strings.HasPrefix(l, "unmarshal") || strings.HasPrefix(l, "marshal") || strings.HasPrefix(l, "safecast")
}

func c02Gen(c *Ctx) {
	c02ArgErrors(c)
	c02InputTable(c)
	c02EnumClosed(c)
	c02ListNullVsEmpty(c)
	c02ArgPath(c)
	parseWidth(c)
	ptrToPtrKeepsNull(c)
	decoderUsesNumber(c)
	layoutAgreement(c)
	genRound2(c)
	numericCaseSets(c)
	// an invalid document must not be executed from the cache on its second arrival (C03)
	c03Cache(c)
}

// errorFlow classifies what happens to the error result of call in fn:
//
//	"propagated": the error value (possibly through graphql.ErrorOnPath / fmt.Errorf wrapping) is returned as the function's error result
//	"tested":     a branch tests it and the failure edge only reaches returns with a non-nil error
//	otherwise a description of the problem.
func (c *Ctx) errorFlow(fn *ssa.Function, call *ssa.Call) string {
	nres := call.Call.Signature().Results().Len()
	var errV ssa.Value
	if nres == 1 {
		errV = call
	} else {
		for _, r := range an.Referrers(call) {
			if ex, ok := r.(*ssa.Extract); ok && ex.Index == nres-1 {
				errV = ex
			}
		}
	}
	if errV == nil {
		return "the error result is discarded"
	}
	ei := fn.Signature.Results().Len() - 1
	// tested?
	tested := false
	for _, e := range an.CondEdges(fn) {
		if empty, ok := an.EmptinessFact(e.Fact, func(v ssa.Value) bool { return an.SameVar(v, errV) }); ok && !empty {
			tested = true
			for b := range an.Reach(e.To, nil) {
				for _, in := range b.Instrs {
					r, isRet := in.(*ssa.Return)
					if !isRet || ei < 0 || ei >= len(r.Results) {
						continue
					}
					if !c.errDerives(r.Results[ei], errV, 0) && !nonNilValue(r.Results[ei]) {
						return "the failure edge reaches the return at " + c.ipos(r) + " whose error may be nil: the coercion error is swallowed and the resolver runs with a zero value"
					}
				}
			}
		}
	}
	if tested {
		return "tested"
	}
	// propagated directly?
	for _, r := range an.Returns(fn) {
		if ei >= 0 && ei < len(r.Results) && c.errDerives(r.Results[ei], errV, 0) && an.CanReach(call, r) {
			return "propagated"
		}
	}
	// stored into a captured/named error variable that the caller tests (fc.Args, err = ...): look for a test of a load of the same cell
	for _, r := range an.Referrers(errV) {
		if st, ok := r.(*ssa.Store); ok && an.IsLocalCell(st.Addr) {
			for _, e := range an.CondEdges(fn) {
				if empty, ok := an.EmptinessFact(e.Fact, func(v ssa.Value) bool { a := loadAddr(v); return a != nil && an.RootAlloc(a) == an.RootAlloc(st.Addr) }); ok && !empty {
					return "tested"
				}
			}
		}
	}
	return "the error result is neither tested nor returned"
}

// errDerives: v is e, or ErrorOnPath(ctx, e), or a wrapping constructor applied to e.
func (c *Ctx) errDerives(v, e ssa.Value, depth int) bool {
	if depth > 4 {
		return false
	}
	for _, d := range an.Defs(v) {
		if an.SameVar(d, e) {
			continue
		}
		call, ok := d.(*ssa.Call)
		if !ok {
			return false
		}
		n := an.CalleeOf(call).FullName()
		if n != pkgGraphql+".ErrorOnPath" && n != "fmt.Errorf" {
			return false
		}
		found := false
		for _, a := range call.Call.Args {
			if c.errDerives(a, e, depth+1) {
				found = true
			}
			// variadic: error inside the []any backing array
			for _, d2 := range an.Defs(a) {
				if sl, ok := d2.(*ssa.Slice); ok {
					if al, ok := sl.X.(*ssa.Alloc); ok {
						for _, r := range an.Referrers(al) {
							if ia, ok := r.(*ssa.IndexAddr); ok {
								for _, r2 := range an.Referrers(ia) {
									if st, ok := r2.(*ssa.Store); ok && c.errDerives(an.Strip(st.Val), e, depth+1) {
										found = true
									}
								}
							}
						}
					}
				}
			}
		}
		if !found {
			return false
		}
	}
	return true
}

func c02ArgErrors(c *Ctx) {
	c.R.Rule("arg-error-blocks-resolver", "in every generated field function the middleware/resolver call is edge-dominated by err == nil of its field-context call; in every field-context, args, unmarshalInput and unmarshal wrapper function, the error result of each fallible generated/runtime callee is tested (failure edge only reaches non-nil error returns) or returned", 500)
	total := 0
	for _, g := range c.Gen {
		for _, fn := range c.genFuncs(g) {
			top := topFn(fn)
			name := top.Name()
			switch {
			case fn.Parent() == nil && strings.HasPrefix(name, "_") && isFieldFuncSig(fn):
				var fcCall *ssa.Call
				for _, call := range an.CallsIn(fn, func(_ ssa.CallInstruction, ci an.CalleeInfo) bool {
					return ci.Static != nil && strings.HasPrefix(ci.Static.Name(), "fieldContext_")
				}) {
					fcCall, _ = call.(*ssa.Call)
				}
				if fcCall == nil {
					continue
				}
				total++
				bad := ""
				n := 0
				for _, f2 := range an.WithClosures(fn) {
					for _, b := range f2.Blocks {
						for _, in := range b.Instrs {
							call, ok := in.(ssa.CallInstruction)
							if !ok {
								continue
							}
							isMw := strings.HasSuffix(an.CalleeOf(call).FullName(), "_fieldMiddleware") || userCallKind(g, call) != ""
							if !isMw {
								continue
							}
							n++
							ok2 := false
							for _, f := range an.Facts(in) {
								if empty, k := an.EmptinessFact(f, func(v ssa.Value) bool {
									cc := an.AllExtractOf(v, 1)
									return cc != nil && cc == ssa.CallInstruction(fcCall)
								}); k && empty {
									ok2 = true
								}
							}
							if !ok2 {
								bad = "the call at " + c.ipos(in) + " is reachable although argument coercion (the field-context function) failed: the resolver runs with missing/zero arguments"
							}
						}
					}
				}
				c.R.Check(bad == "", "gen:"+g.Name+"/"+name+"/args-gate", c.ipos(fcCall), sprintf("%d resolver-chain calls behind err == nil", n), bad)
			case strings.HasPrefix(name, "fieldContext_") || (strings.HasPrefix(name, "field_") && strings.HasSuffix(name, "_args")) || strings.HasPrefix(name, "dir_") || strings.HasPrefix(name, "unmarshal"):
				if fn.Signature.Results().Len() == 0 || !an.IsErrorType(fn.Signature.Results().At(fn.Signature.Results().Len()-1).Type()) {
					continue
				}
				for _, b := range fn.Blocks {
					for _, in := range b.Instrs {
						call, ok := in.(*ssa.Call)
						if !ok {
							continue
						}
						res := call.Call.Signature().Results()
						if res.Len() == 0 || !an.IsErrorType(res.At(res.Len()-1).Type()) {
							continue
						}
						total++
						flow := c.errorFlow(fn, call)
						c.R.Check(flow == "tested" || flow == "propagated", "gen:"+g.Name+"/"+name+"/err", c.ipos(call), flow, "error of "+an.CalleeOf(call).FullName()+": "+flow)
					}
				}
			}
		}
	}
	c.R.SetFloor(total)
	if total < 500 {
		c.R.Fail("arg-error-blocks-resolver examined only %d sites", total)
	}
}

func c02InputTable(c *Ctx) {
	c.R.Rule("input-table", "for every input object of the embedded SDL: the generated unmarshalInput function's field-order table and its `switch k` case set both equal the SDL field list, in SDL order; a default value is stored into the working map only under !present of that same key and exactly for the SDL fields that declare a default; every case stores into the result", 10)
	total := 0
	for _, g := range c.Gen {
		sch := c.schema(g)
		if sch == nil {
			continue
		}
		var names []string
		for n := range sch.Types {
			names = append(names, n)
		}
		sort.Strings(names)
		for _, tn := range names {
			def := sch.Types[tn]
			if def.Kind != gast.InputObject || isReservedName(tn) {
				continue
			}
			fn := c.genFunc(g, "unmarshalInput"+tn)
			if fn == nil {
				c.R.Note("gen:"+g.Name+"/unmarshalInput"+tn, g.Spec.Dir, "input type is bound to a user model with its own unmarshaler or to a map; no generated unmarshalInput")
				continue
			}
			total++
			key := "gen:" + g.Name + "/unmarshalInput" + tn
			var sdl []string
			defaults := map[string]bool{}
			for _, f := range def.Fields {
				sdl = append(sdl, f.Name)
				if f.DefaultValue != nil {
					defaults[f.Name] = true
				}
			}
			// the order table: an array of string constants stored at constant indices
			var table []string
			for _, b := range fn.Blocks {
				for _, in := range b.Instrs {
					al, ok := in.(*ssa.Alloc)
					if !ok {
						continue
					}
					arr, ok := al.Type().Underlying().(*types.Pointer).Elem().Underlying().(*types.Array)
					if !ok {
						continue
					}
					if bt, ok := arr.Elem().Underlying().(*types.Basic); !ok || bt.Kind() != types.String {
						continue
					}
					tmp := make([]string, arr.Len())
					for _, r := range an.Referrers(al) {
						ia, ok := r.(*ssa.IndexAddr)
						if !ok {
							continue
						}
						idx, isC := an.ConstInt(ia.Index)
						if !isC {
							continue
						}
						for _, r2 := range an.Referrers(ia) {
							if st, ok := r2.(*ssa.Store); ok {
								if sv, ok := an.ConstString(st.Val); ok && int(idx) < len(tmp) {
									tmp[idx] = sv
								}
							}
						}
					}
					if len(tmp) > 0 || len(sdl) == 0 {
						table = tmp
					}
				}
			}
			cases := switchCases(fn, func(v ssa.Value) bool {
				// the switch subject is the ranged element of the table
				_, isC := v.(*ssa.Const)
				return !isC
			})
			// second accepted shape: no order table and no switch — one `if v, ok := asMap["f"]; ok { … }` block per field, in
			// sequence; the order is the dominance order of the comma-ok lookups whose value is used
			stopBlocks := map[*ssa.BasicBlock]bool{}
			if len(table) == 0 && len(cases) == 0 {
				type lk struct {
					key string
					in  *ssa.Lookup
					blk *ssa.BasicBlock
				}
				var lks []lk
				for _, b := range fn.Blocks {
					for _, in := range b.Instrs {
						l, ok := in.(*ssa.Lookup)
						if !ok || !l.CommaOk {
							continue
						}
						k, isC := an.ConstString(l.Index)
						if !isC {
							continue
						}
						valueUsed := false
						var okIf *ssa.If
						for _, r := range an.Referrers(l) {
							ex, isEx := r.(*ssa.Extract)
							if !isEx {
								continue
							}
							for _, r2 := range an.Referrers(ex) {
								if _, isDbg := r2.(*ssa.DebugRef); isDbg {
									continue
								}
								if ex.Index == 0 {
									valueUsed = true
								} else if iff, isIf := r2.(*ssa.If); isIf {
									okIf = iff
								}
							}
						}
						if valueUsed && okIf != nil {
							lks = append(lks, lk{k, l, okIf.Block().Succs[0]})
						}
					}
				}
				sort.SliceStable(lks, func(i, j int) bool { return an.Before(lks[i].in, lks[j].in) })
				cases = map[string]*ssa.BasicBlock{}
				for _, l := range lks {
					table = append(table, l.key)
					cases[l.key] = l.blk
					stopBlocks[l.in.Block()] = true
				}
			}
			var caseNames []string
			for k := range cases {
				caseNames = append(caseNames, k)
			}
			bad := ""
			if strings.Join(table, ",") != strings.Join(sdl, ",") {
				bad = "field-order table [" + strings.Join(table, ",") + "] differs from the SDL field list [" + strings.Join(sdl, ",") + "]: fields are coerced in the wrong order or not at all"
			}
			want := append([]string{}, sdl...)
			sort.Strings(want)
			sort.Strings(caseNames)
			if bad == "" && strings.Join(caseNames, ",") != strings.Join(want, ",") {
				bad = "switch cases [" + strings.Join(caseNames, ",") + "] differ from the SDL fields [" + strings.Join(want, ",") + "]: a supplied input field is silently ignored"
			}
			// defaults: stores with a constant key into the working copy of the input map (the map filled by the copy loop)
			var working ssa.Value
			for _, b := range fn.Blocks {
				for _, in := range b.Instrs {
					if mu, ok := in.(*ssa.MapUpdate); ok {
						if _, isC := an.ConstString(mu.Key); !isC {
							working = mu.Map
						}
					}
				}
			}
			gotDefaults := map[string]bool{}
			for _, b := range fn.Blocks {
				for _, in := range b.Instrs {
					mu, ok := in.(*ssa.MapUpdate)
					if !ok {
						continue
					}
					k, isC := an.ConstString(mu.Key)
					if !isC {
						continue // the copy loop asMap[k] = v
					}
					if working != nil && mu.Map != working {
						continue // a store into a map-backed result, not into the working copy
					}
					gotDefaults[k] = true
					okPresent := false
					for _, f := range an.Facts(mu) {
						if f.Op == token.ILLEGAL && f.Neg {
							if ex, ok := f.X.(*ssa.Extract); ok && ex.Index == 1 {
								if lk, ok := ex.Tuple.(*ssa.Lookup); ok {
									if k2, ok := an.ConstString(lk.Index); ok && k2 == k {
										okPresent = true
									}
								}
							}
						}
					}
					if !okPresent && bad == "" {
						bad = "the default of field " + k + " is stored without testing that the client omitted exactly that field: an explicit value (or explicit null) is overwritten by the default"
					}
				}
			}
			for k := range defaults {
				if !gotDefaults[k] && bad == "" {
					bad = "SDL default of field " + k + " is never injected"
				}
			}
			for k := range gotDefaults {
				if !defaults[k] && bad == "" {
					bad = "a default is injected for field " + k + " which declares none in the SDL"
				}
			}
			// every case stores into the result
			for k, blk := range cases {
				region := an.Reach(blk, func(b *ssa.BasicBlock) bool {
					return b != blk && (isCaseHead(b, cases) || isLoopHeader(b) || stopBlocks[b])
				})
				stores := false
				for b := range region {
					if b != blk && (isCaseHead(b, cases) || isLoopHeader(b) || stopBlocks[b]) {
						continue
					}
					for _, in := range b.Instrs {
						switch x := in.(type) {
						case *ssa.Store:
							if fa, ok := x.Addr.(*ssa.FieldAddr); ok {
								if _, isAl := an.RootAlloc(fa.X).(*ssa.Alloc); isAl {
									stores = true
								}
							}
						case *ssa.MapUpdate:
							stores = true
						case *ssa.Call:
							// input field resolver: ec.resolvers.X().Field(ctx, &it, data)
							for _, a := range x.Call.Args {
								if _, isAl := a.(*ssa.Alloc); isAl && x.Call.IsInvoke() {
									stores = true
								}
							}
						}
					}
				}
				if !stores && bad == "" {
					bad = "case " + k + " coerces the value but never stores it into the result"
				}
			}
			c.R.Check(bad == "", key, c.pos(fn.Pos()), sprintf("%d fields in SDL order, %d defaults under !present", len(sdl), len(defaults)), bad)
		}
	}
	if total < 10 {
		c.R.Fail("input-table examined only %d input objects", total)
	}
}

func c02EnumClosed(c *Ctx) {
	c.R.Rule("enum-closed", "for every generated enum type (a named string type with generated IsValid and UnmarshalGQL): IsValid's case set equals the type's declared constants and the values of the SDL enum of the same name; UnmarshalGQL returns a non-nil error on the not-a-string edge and on the !IsValid edge", 3)
	total := 0
	seen := map[string]bool{}
	for _, g := range c.Gen {
		sch := c.schema(g)
		if sch == nil {
			continue
		}
		// packages that hold generated files of this configuration
		for file := range g.Mat.Files {
			dir := file[:strings.LastIndex(file, "/")]
			tp := c.W.TPkg(modPath(dir))
			if tp == nil || seen[g.Name+tp.PkgPath] {
				continue
			}
			seen[g.Name+tp.PkgPath] = true
			sp := c.W.Pkg(tp.PkgPath)
			if sp == nil {
				continue
			}
			for _, tn := range tp.Types.Scope().Names() {
				obj, ok := tp.Types.Scope().Lookup(tn).(*types.TypeName)
				if !ok {
					continue
				}
				bt, ok := obj.Type().Underlying().(*types.Basic)
				if !ok || bt.Kind() != types.String {
					continue
				}
				isValid := c.W.Func(tp.PkgPath, tn+".IsValid")
				unm := c.W.Func(tp.PkgPath, "*"+tn+".UnmarshalGQL")
				if isValid == nil || unm == nil {
					continue
				}
				if _, gen := g.Mat.Files[c.W.PosFile(isValid.Pos())]; !gen {
					continue // user-written enum
				}
				total++
				key := "gen:" + g.Name + "/enum:" + tn
				// declared constants of the type
				consts := map[string]bool{}
				for _, n2 := range tp.Types.Scope().Names() {
					if cn, ok := tp.Types.Scope().Lookup(n2).(*types.Const); ok && types.Identical(cn.Type(), obj.Type()) {
						consts[constant.StringVal(cn.Val())] = true
					}
				}
				cases := switchCases(isValid, func(v ssa.Value) bool { _, isP := v.(*ssa.Parameter); return isP })
				var cs, ks, sdl []string
				for k := range cases {
					cs = append(cs, k)
				}
				for k := range consts {
					ks = append(ks, k)
				}
				sort.Strings(cs)
				sort.Strings(ks)
				bad := ""
				if strings.Join(cs, ",") != strings.Join(ks, ",") {
					bad = "IsValid accepts [" + strings.Join(cs, ",") + "] but the type declares [" + strings.Join(ks, ",") + "]"
				}
				if def := sch.Types[tn]; def != nil && def.Kind == gast.Enum {
					for _, v := range def.EnumValues {
						sdl = append(sdl, v.Name)
					}
					sort.Strings(sdl)
					if bad == "" && strings.Join(sdl, ",") != strings.Join(cs, ",") {
						bad = "IsValid accepts [" + strings.Join(cs, ",") + "] but the SDL enum " + tn + " has [" + strings.Join(sdl, ",") + "]: an undeclared value is accepted or a declared one rejected"
					}
				}
				// UnmarshalGQL edges
				okStr, okValid := false, false
				for _, e := range an.CondEdges(unm) {
					if e.Fact.Op != token.ILLEGAL || !e.Fact.Neg {
						continue
					}
					isOk := false
					if ex, ok := e.Fact.X.(*ssa.Extract); ok && ex.Index == 1 {
						if _, ok := ex.Tuple.(*ssa.TypeAssert); ok {
							isOk = true
						}
					}
					isIV := false
					if call, ok := e.Fact.X.(*ssa.Call); ok && call.Call.StaticCallee() == isValid {
						isIV = true
					}
					if !isOk && !isIV {
						continue
					}
					if ok2, _ := c.edgeOnlyErrReturns(e.To, 0); ok2 {
						if isOk {
							okStr = true
						}
						if isIV {
							okValid = true
						}
					}
				}
				if bad == "" && !(okStr && okValid) {
					bad = sprintf("UnmarshalGQL does not reject bad input on every edge (non-string rejected: %v, invalid value rejected: %v)", okStr, okValid)
				}
				c.R.Check(bad == "", key, c.pos(isValid.Pos()), sprintf("%d values: IsValid = constants = SDL; UnmarshalGQL closed", len(cs)), bad)
			}
		}
	}
	if total < 3 {
		c.R.Fail("enum-closed examined only %d generated enums", total)
	}
}

// c02ListNullVsEmpty: an empty list is not null.  The generated list unmarshalers turn the coerced input into a Go slice; the
// resolver must be able to tell `[]` (a non-nil empty slice) from null (a nil slice), also when the empty list is a literal
// — gqlparser hands an empty list literal over as a nil-valued []any, which CoerceList passes through.  In every generated
// function that calls graphql.CoerceList: a successful return (nil error) yields a nil slice only on an edge where the raw
// input parameter itself is nil; any other successful return yields a made slice.
func c02ListNullVsEmpty(c *Ctx) {
	c.R.Rule("list-null-vs-empty", "in every generated list unmarshaler (a function calling graphql.CoerceList) a successful return gives back a nil slice only on the edge `input == nil`, never because the coerced list happens to be nil/empty", 20)
	n := 0
	for _, g := range c.Gen {
		for _, fn := range c.genFuncs(g) {
			if fn.Parent() != nil {
				continue
			}
			calls := an.CallsIn(fn, func(_ ssa.CallInstruction, ci an.CalleeInfo) bool { return ci.FullName() == pkgGraphql+".CoerceList" })
			if len(calls) == 0 || fn.Signature.Results().Len() != 2 {
				continue
			}
			if _, isSlice := fn.Signature.Results().At(0).Type().Underlying().(*types.Slice); !isSlice {
				continue
			}
			input := calls[0].Common().Args[0]
			n++
			bad := ""
			for _, r := range an.Returns(fn) {
				if fn.Recover != nil && r.Block() == fn.Recover {
					continue
				}
				if len(r.Results) != 2 || !an.IsNilConst(an.ReturnedValue(r, 1)) {
					continue
				}
				for _, ve := range valueEdges(an.ReturnedValue(r, 0), r.Block()) {
					if !an.IsNilConst(ve.val) {
						continue
					}
					fs := append(factsOn(ve), an.Facts(r)...)
					okNil := false
					for _, f := range fs {
						if empty, k := an.EmptinessFact(f, func(x ssa.Value) bool { return x == input || an.SameVar(x, input) }); k && empty {
							// the fact must be a nil test of the input itself, not a length test of something derived from it
							okNil = true
						}
					}
					if !okNil {
						bad = "a nil list is returned with a nil error at " + c.ipos(r) + " on a path where the input is not known to be null: an empty list (`[]` literal, `= []` default) reaches the resolver as null"
					}
				}
			}
			c.R.Check(bad == "", "gen:"+g.Name+"/"+fn.Name(), c.pos(fn.Pos()), "nil result only for a nil input", bad)
		}
	}
	if n < 20 {
		c.R.Fail("list-null-vs-empty examined only %d list unmarshalers", n)
	}
}

// c02ArgPath: an uncoercible argument is reported at the argument's path: every raw argument is coerced under
// WithPathContext(NewPathWithField(<the key it was read with>)) (same analysis as the argument part of C01/path-ctx), and a list
// input's elements under NewPathWithIndex of the element's own index on the context the list function received (not on the
// context of the previous element).
func c02ArgPath(c *Ctx) {
	c.R.Rule("arg-path", "every raw argument is coerced under a path context named after the key it was read with; list elements are coerced under WithPathContext(<the function's own ctx>, NewPathWithIndex(i))", 40)
	total := 0
	for _, g := range c.Gen {
		for _, fn := range c.genFuncs(g) {
			if fn.Parent() != nil {
				continue
			}
			name := fn.Name()
			if (strings.HasPrefix(name, "field_") || strings.HasPrefix(name, "dir_")) && strings.Contains(name, "_args") {
				c.argsPath(g, fn, &total)
			}
			// list unmarshalers
			if len(an.CallsIn(fn, func(_ ssa.CallInstruction, ci an.CalleeInfo) bool { return ci.FullName() == pkgGraphql+".CoerceList" })) == 0 {
				continue
			}
			for _, call := range an.CallsIn(fn, func(_ ssa.CallInstruction, ci an.CalleeInfo) bool {
				return ci.FullName() == pkgGraphql+".WithPathContext"
			}) {
				total++
				vc, _ := call.(*ssa.Call)
				bad := ""
				// the parent context must not be the result of this very call in an earlier iteration
				for _, d := range an.Defs(call.Common().Args[0]) {
					if vc != nil && d == ssa.Value(vc) {
						bad = "the element's path context is derived from the previous element's context: the error path of element k accumulates the indices 0..k"
					}
				}
				isIdx := false
				for _, d := range an.Defs(call.Common().Args[1]) {
					if cc, ok := d.(*ssa.Call); ok && an.CalleeOf(cc).FullName() == pkgGraphql+".NewPathWithIndex" {
						isIdx = true
					}
				}
				if !isIdx && bad == "" {
					bad = "the list element is not coerced under NewPathWithIndex"
				}
				c.R.Check(bad == "", "gen:"+g.Name+"/"+name+"/element-path", c.ipos(call), "WithPathContext(ctx, NewPathWithIndex(i)) on the function's own context", bad)
			}
		}
	}
	if total < 40 {
		c.R.Fail("arg-path examined only %d sites", total)
	}
}

// roundTripChecked: the narrowed value cv is used only (a) to be widened back and compared with the original, and (b) on edges
// where that comparison found them equal.
func roundTripChecked(cv *ssa.Convert) bool {
	isBack := func(v ssa.Value) bool {
		back, ok := v.(*ssa.Convert)
		return ok && back.X == ssa.Value(cv) && types.Identical(back.Type(), cv.X.Type())
	}
	equalFact := func(at ssa.Instruction) bool {
		for _, f := range an.Facts(at) {
			if f.Op != token.EQL || f.X == nil || f.Y == nil {
				continue
			}
			if isBack(f.X) && (f.Y == cv.X || an.SameVar(f.Y, cv.X)) || isBack(f.Y) && (f.X == cv.X || an.SameVar(f.X, cv.X)) {
				return true
			}
		}
		return false
	}
	n := 0
	for _, r := range an.Referrers(cv) {
		if _, isDbg := r.(*ssa.DebugRef); isDbg {
			continue
		}
		if v, ok := r.(ssa.Value); ok && isBack(v) {
			n++
			continue
		}
		if !equalFact(r) {
			return false
		}
	}
	return n > 0
}
