package rules

import (
	"go/constant"
	"go/token"
	"go/types"
	"math/big"
	"strings"

	"golang.org/x/tools/go/ssa"

	"verif/internal/an"
)

func init() {
	register(&Property{
		ID:      "C02",
		NeedGen: true,
		Runtime: RuntimeCore,
		Run:     runC02,
		Explanation: "Error discipline and table agreement of input coercion: (lossy-conv) every narrowing or sign-changing integer conversion in graphql.Unmarshal*/safeCast* is edge-dominated by range tests of the same value " +
			"against constants inside the target type's range (amd64; thorough also 386); (arg-error-blocks-resolver) in every generated field function the resolver/middleware call is edge-dominated by err == nil of the " +
			"argument coercion, and in every generated args/input/unmarshal function each fallible callee's error is tested and its failure edge only reaches non-nil error returns; (input-table) each generated " +
			"unmarshalInput's fieldsInOrder table and `switch k` case set equal the SDL's input fields in SDL order, and defaults are injected only under !present; (enum-closed) each generated enum's IsValid case set " +
			"equals its constants and the SDL values, and UnmarshalGQL returns an error on the !IsValid and non-string edges.",
		NotDecided:  "equality of coerced values with the spec (CoerceList, default values' contents, Omittable set/unset semantics, custom scalars) — value-level",
		Assumptions: []string{"client integers arrive as json.Number/string/int/int64 as produced by gqlparser and encoding/json"},
	})
}

func runC02(c *Ctx) {
	lossyConv(c, "C02")
	c02Gen(c)
}

func intRange(t types.Type, sizes types.Sizes) (lo, hi *big.Int, signed bool, ok bool) {
	b, isB := t.Underlying().(*types.Basic)
	if !isB || b.Info()&types.IsInteger == 0 {
		return nil, nil, false, false
	}
	bits := uint(sizes.Sizeof(t) * 8)
	signed = b.Info()&types.IsUnsigned == 0
	one := big.NewInt(1)
	if signed {
		hi = new(big.Int).Sub(new(big.Int).Lsh(one, bits-1), one)
		lo = new(big.Int).Neg(new(big.Int).Lsh(one, bits-1))
	} else {
		lo = big.NewInt(0)
		hi = new(big.Int).Sub(new(big.Int).Lsh(one, bits), one)
	}
	return lo, hi, signed, true
}

func constBig(v ssa.Value) (*big.Int, bool) {
	cv, ok := v.(*ssa.Const)
	if !ok || cv.Value == nil {
		return nil, false
	}
	val := constant.ToInt(cv.Value)
	if val.Kind() != constant.Int {
		return nil, false
	}
	if i, exact := constant.Int64Val(val); exact {
		return big.NewInt(i), true
	}
	if u, exact := constant.Uint64Val(val); exact {
		return new(big.Int).SetUint64(u), true
	}
	return nil, false
}

// lossyConv is shared by C02 and C08.
func lossyConv(c *Ctx, prop string) {
	c.R.Rule("lossy-conv", "every integer Convert in graphql.Unmarshal* / safeCast* whose target type cannot represent every value of the source type is edge-dominated by comparisons of the same value with constants that confine it to the target's range", 14)
	worlds := []struct {
		arch  string
		funcs []*ssa.Function
		sizes types.Sizes
		pos   func(ssa.Instruction) string
	}{{"amd64", c.moduleFuncs(func(p string) bool { return p == pkgGraphql }), types.SizesFor("gc", "amd64"), c.ipos}}
	if c.Tier == "thorough" && c.Alt386 != nil {
		w := c.Alt386()
		if w != nil {
			c2 := &Ctx{W: w, R: c.R, Tier: c.Tier}
			worlds = append(worlds, struct {
				arch  string
				funcs []*ssa.Function
				sizes types.Sizes
				pos   func(ssa.Instruction) string
			}{"386", c2.moduleFuncs(func(p string) bool { return p == pkgGraphql }), types.SizesFor("gc", "386"), c2.ipos})
		}
	}
	for _, w := range worlds {
		for _, fn := range w.funcs {
			top := topFn(fn)
			if !(strings.HasPrefix(top.Name(), "Unmarshal") || strings.HasPrefix(top.Name(), "safeCast")) || top.Signature.Recv() != nil {
				continue
			}
			for _, b := range fn.Blocks {
				for _, in := range b.Instrs {
					cv, ok := in.(*ssa.Convert)
					if !ok {
						continue
					}
					slo, shi, _, ok1 := intRange(cv.X.Type(), w.sizes)
					dlo, dhi, _, ok2 := intRange(cv.Type(), w.sizes)
					if !ok1 || !ok2 {
						continue
					}
					key := w.arch + ":" + top.Name() + "/" + cv.X.Type().String() + "→" + cv.Type().String()
					needLo := slo.Cmp(dlo) < 0
					needHi := shi.Cmp(dhi) > 0
					if !needLo && !needHi {
						c.R.OKTrivial(key, w.pos(cv), "target represents every source value")
						continue
					}
					haveLo, haveHi := !needLo, !needHi
					for _, f := range an.Facts(cv) {
						x, y, op := f.X, f.Y, f.Op
						if x == nil || y == nil {
							continue
						}
						if _, isC := constBig(x); isC { // mirror: const on the left
							x, y = y, x
							switch op {
							case token.LSS:
								op = token.GTR
							case token.GTR:
								op = token.LSS
							case token.LEQ:
								op = token.GEQ
							case token.GEQ:
								op = token.LEQ
							}
						}
						k, isC := constBig(y)
						if !isC || !an.SameVar(x, cv.X) {
							continue
						}
						switch op {
						case token.GEQ:
							if k.Cmp(dlo) >= 0 {
								haveLo = true
							}
						case token.GTR:
							if new(big.Int).Add(k, big.NewInt(1)).Cmp(dlo) >= 0 {
								haveLo = true
							}
						case token.LEQ:
							if k.Cmp(dhi) <= 0 {
								haveHi = true
							}
						case token.LSS:
							if new(big.Int).Sub(k, big.NewInt(1)).Cmp(dhi) <= 0 {
								haveHi = true
							}
						}
					}
					c.R.Check(haveLo && haveHi, key, w.pos(cv), "range-tested before the conversion",
						sprintf("lossy integer conversion without a dominating range test (lower bound needed=%v present=%v, upper bound needed=%v present=%v): an input outside %s's range is silently changed into a different number", needLo, haveLo, needHi, haveHi, cv.Type().String()))
				}
			}
		}
	}
}

func c02Gen(c *Ctx) {}
