package rules

import (
	"go/ast"
	"go/token"
	"go/types"
	"sort"
	"strconv"
	"strings"

	"golang.org/x/tools/go/ssa"

	"verif/internal/an"
)

func init() {
	register(&Property{
		ID:      "C17",
		NeedGen: true,
		Runtime: []string{"./codegen/templates", "./plugin/resolvergen", "./plugin/modelgen", "./plugin/federation"},
		Run:     runC17,
		Explanation: "Narrow structural claim for C17: (1) every registered generator configuration (the repository's own regression configs plus /verif probe overlays, " +
			"regenerated from the current templates by the repository's own generator driver built from the snapshot) generates without error/panic and every emitted package " +
			"type-checks with go/types against the current runtime packages; (2) the literal table consulted by sanitizeKeywords is a superset of go/token's keyword set; (3) the model-name registry records every name it hands out in every map its collision test reads; (4) an import alias is stored only after the alias finder found nothing for that very alias. " +
			"The generator run decides nothing about behaviour; the verdict is the static type-check of its output. (5) in the follow-schema resolver generator every *File is filed under a key computed from its own output name.",
		NotDecided: "all other schemas and configs; collision-freedom of generated identifiers in general; generating from random schemas would be dynamic testing and is out of family",
		Assumptions: []string{
			"the registered configuration set stands for 'every supported schema and config' only as far as the templates' branches it materialises (reported in coverage.materialised)",
		},
	})
}

func runC17(c *Ctx) {
	c17Materialise(c)
	if c.W.Prog == nil {
		return
	}

	c17Registry(c)
	c17AliasUnique(c)
	c17ResolverFileKey(c)
	c17Keywords(c)
	c17TemplateNilChains(c)
	c17ErrorResultFieldChecked(c)
}

// c17Materialise: the generator runs and its output type-checks for every registered configuration (shared with C18 and C19:
// a generator that fails over its own previous output, or output that no longer compiles, breaks them too).
func c17Materialise(c *Ctx) {
	c.R.Rule("materialise+typecheck", "each registered generator configuration generates (exit 0, no panic) from the current templates and every emitted package has zero go/types errors", len(c.Gen))
	for _, g := range c.Gen {
		if g.Mat.Err != "" {
			c.R.Bad("gen:"+g.Name+"/generate", g.Spec.Dir, "generator failed: "+firstLines(g.Mat.Err, 6))
			continue
		}
		if len(g.Mat.Files) == 0 {
			c.R.Bad("gen:"+g.Name+"/generate", g.Spec.Dir, "generator emitted no Go file")
			continue
		}
		var errs []string
		for _, e := range c.W.TypeErrs {
			if strings.HasPrefix(e, g.Path) || strings.Contains(e, "/"+g.Spec.Dir+"/") {
				errs = append(errs, e)
			}
		}
		tp := c.W.TPkg(g.Path)
		if tp == nil {
			c.R.Bad("gen:"+g.Name+"/typecheck", g.Spec.Dir, "emitted executor package "+g.Path+" was not loaded")
			continue
		}
		if len(errs) > 0 {
			c.R.Bad("gen:"+g.Name+"/typecheck", g.Spec.Dir, sprintf("%d type errors, first: %s", len(errs), errs[0]))
			continue
		}
		c.R.OK("gen:"+g.Name+"/typecheck", g.Spec.Dir, sprintf("%d generated files, package %s and its dependencies type-check", len(g.Mat.Files), g.Path))
	}
	// type errors anywhere else in the module (e.g. resolver stubs of a config) are violations too
	var other []string
	for _, e := range c.W.TypeErrs {
		owned := false
		for _, g := range c.Gen {
			if strings.HasPrefix(e, g.Path) {
				owned = true
			}
		}
		if !owned {
			other = append(other, e)
		}
	}
	if len(other) > 0 {
		c.R.Bad("module/typecheck", "-", sprintf("%d type errors outside the executor packages, first: %s", len(other), other[0]))
	}
}

func c17Keywords(c *Ctx) {
	c.R.Rule("keywords", "the literal table ranged over by templates.sanitizeKeywords contains every Go keyword (go/token)", 25)
	fn := c.fn(modPath("codegen/templates"), "sanitizeKeywords")
	if fn == nil {
		return
	}
	var glob *ssa.Global
	for _, b := range fn.Blocks {
		for _, in := range b.Instrs {
			for _, op := range in.Operands(nil) {
				if g, ok := (*op).(*ssa.Global); ok {
					if s, ok := g.Type().(*types.Pointer).Elem().Underlying().(*types.Slice); ok {
						if bt, ok := s.Elem().Underlying().(*types.Basic); ok && bt.Kind() == types.String {
							glob = g
						}
					}
				}
			}
		}
	}
	if glob == nil {
		c.R.Fail("unresolved anchor: sanitizeKeywords does not read a package-level []string table")
		return
	}
	have := map[string]bool{}
	tp := c.W.TPkg(modPath("codegen/templates"))
	for _, f := range tp.Syntax {
		ast.Inspect(f, func(n ast.Node) bool {
			vs, ok := n.(*ast.ValueSpec)
			if !ok {
				return true
			}
			for i, nm := range vs.Names {
				if tp.TypesInfo.Defs[nm] == glob.Object() && i < len(vs.Values) {
					if cl, ok := vs.Values[i].(*ast.CompositeLit); ok {
						for _, e := range cl.Elts {
							if bl, ok := e.(*ast.BasicLit); ok && bl.Kind == token.STRING {
								if s, err := strconv.Unquote(bl.Value); err == nil {
									have[s] = true
								}
							}
						}
					}
				}
			}
			return true
		})
	}
	var kws []string
	for t := token.Token(0); t < token.Token(200); t++ {
		if t.IsKeyword() {
			kws = append(kws, t.String())
		}
	}
	sort.Strings(kws)
	for _, k := range kws {
		c.R.Check(have[k], "keyword:"+k, c.pos(glob.Pos()), "present in "+glob.Name(), "Go keyword "+strconv.Quote(k)+" missing from the table sanitizeKeywords consults: an argument named "+k+" generates code that does not parse")
	}
}

// c17Registry: every name handed out by the model-name collision registry is recorded in every package-level map that the
// collision test reads, before it is returned.
func c17Registry(c *Ctx) {
	c.R.Rule("registry-consistent", "in templates.goModelName every return of a newly built name is preceded on all paths by an update of each package-level map that its collision test (the nameExists closure) reads; only the cache-hit return is exempt", 3)
	fn := c.fn(modPath("codegen/templates"), "goModelName")
	if fn == nil {
		return
	}
	// maps read by nested closures (collision test) through Range/Lookup on a global
	read := map[*ssa.Global]bool{}
	for _, cl := range fn.AnonFuncs {
		for _, b := range cl.Blocks {
			for _, in := range b.Instrs {
				var m ssa.Value
				switch x := in.(type) {
				case *ssa.Range:
					m = x.X
				case *ssa.Lookup:
					m = x.X
				}
				if m == nil {
					continue
				}
				if g, ok := loadGlobal(m); ok {
					if _, isMap := g.Type().(*types.Pointer).Elem().Underlying().(*types.Map); isMap {
						read[g] = true
					}
				}
			}
		}
	}
	if len(read) == 0 {
		c.R.Fail("unresolved anchor: goModelName's collision test reads no package-level map")
		return
	}
	n := 0
	for _, r := range an.Returns(fn) {
		// cache hit: returns the value of a Lookup
		hit := false
		for _, d := range an.Defs(an.ReturnedValue(r, 0)) {
			if ex, ok := d.(*ssa.Extract); ok {
				if _, isL := ex.Tuple.(*ssa.Lookup); isL {
					hit = true
				}
			}
			if _, isL := d.(*ssa.Lookup); isL {
				hit = true
			}
		}
		if hit {
			continue
		}
		n++
		bad := ""
		for g := range read {
			ok := mustPassThrough(fn, r, func(in ssa.Instruction) bool {
				mu, isMU := in.(*ssa.MapUpdate)
				if !isMU {
					return false
				}
				g2, isG := loadGlobal(mu.Map)
				return isG && g2 == g
			})
			if !ok {
				// check-and-record fused into a local function: `if claim(name) { return name }` where every `return true`
				// of claim is preceded by the update of g
				for _, f := range an.Facts(r) {
					if f.Op != token.ILLEGAL || f.Neg {
						continue
					}
					call, isCall := f.X.(*ssa.Call)
					if !isCall {
						continue
					}
					var cl *ssa.Function
					for _, d := range an.Defs(call.Call.Value) {
						if mc, isMC := d.(*ssa.MakeClosure); isMC {
							cl, _ = mc.Fn.(*ssa.Function)
						}
					}
					if cl != nil && trueReturnsUpdate(cl, g) {
						ok = true
					}
				}
			}
			if !ok {
				bad = "a new name is returned without being recorded in " + g.Name() + ", which the collision test reads: the same Go identifier can be handed out twice (duplicate declarations, generated models do not compile)"
			}
		}
		c.R.Check(bad == "", "goModelName/return-recorded", c.ipos(r), sprintf("recorded in %d registry map(s) before returning", len(read)), bad)
	}
	if n < 3 {
		c.R.Fail("registry-consistent examined only %d returns", n)
	}
}

func firstLines(s string, n int) string {
	l := strings.Split(strings.TrimSpace(s), "\n")
	if len(l) > n {
		l = l[:n]
	}
	return strings.Join(l, " | ")
}

// c17AliasUnique: the import alias registry of codegen/templates hands out an alias only after it looked that very alias up
// among the aliases already taken and found none.  Every store to Import.Alias (incl. the field of an Import literal that is
// appended to Imports.imports) is edge-dominated by `finder(alias') == nil`, where finder is a function of the package that
// returns a *Import and compares an import's Alias with its string argument, and alias' is the value being stored.
func c17AliasUnique(c *Ctx) {
	c.R.Rule("alias-unique", "in codegen/templates every store to Import.Alias is dominated by the edge on which the alias finder (returns an import only when its Alias equals the argument) found nothing for the very alias being stored", 2)
	pkg := modPath("codegen/templates")
	isFinder := func(fn *ssa.Function) bool {
		if fn == nil || len(fn.Blocks) == 0 || fn.Pkg == nil || fn.Pkg.Pkg.Path() != pkg {
			return false
		}
		var arg *ssa.Parameter
		for _, p := range fn.Params {
			if bt, ok := p.Type().Underlying().(*types.Basic); ok && bt.Kind() == types.String {
				arg = p
			}
		}
		if arg == nil {
			return false
		}
		// role: the function (or a predicate literal it hands to a search helper such as slices.IndexFunc) compares an
		// Import's Alias with its string argument, and it returns a *Import
		res := fn.Signature.Results()
		if res.Len() != 1 || !strings.HasSuffix(res.At(0).Type().String(), "templates.Import") {
			return false
		}
		for _, f := range an.WithClosures(fn) {
			for _, b := range f.Blocks {
				for _, in := range b.Instrs {
					bo, ok := in.(*ssa.BinOp)
					if !ok || bo.Op != token.EQL {
						continue
					}
					for _, pr := range [][2]ssa.Value{{bo.X, bo.Y}, {bo.Y, bo.X}} {
						fa, isFA := loadAddr(pr[0]).(*ssa.FieldAddr)
						if isFA && fieldNameOf(fa) == "Alias" && (pr[1] == ssa.Value(arg) || an.SameVar(pr[1], arg)) {
							return true
						}
					}
				}
			}
		}
		return false
	}
	n := 0
	for _, fn := range c.moduleFuncs(func(p string) bool { return p == pkg }) {
		for _, b := range fn.Blocks {
			for _, in := range b.Instrs {
				st, ok := in.(*ssa.Store)
				if !ok {
					continue
				}
				fa, ok := st.Addr.(*ssa.FieldAddr)
				if !ok || fieldNameOf(fa) != "Alias" || !an.NamedIs(fa.X.Type(), pkg, "Import") {
					continue
				}
				n++
				freeAt := func(at ssa.Instruction, val ssa.Value) bool {
					for _, f := range an.Facts(at) {
						empty, k := an.EmptinessFact(f, func(x ssa.Value) bool {
							call, isC := an.Strip(x).(*ssa.Call)
							if !isC || !isFinder(call.Call.StaticCallee()) {
								return false
							}
							for _, a := range call.Call.Args {
								if a == val || an.SameVar(a, val) {
									return true
								}
							}
							return false
						})
						if k && empty {
							return true
						}
					}
					return false
				}
				ok = freeAt(st, st.Val)
				if !ok {
					// `imp.Alias = s.freeAlias(base)`: a helper of the package every return of which hands back a value it has
					// just looked up and found free
					if hc, isCall := an.Strip(st.Val).(*ssa.Call); isCall {
						if h := hc.Call.StaticCallee(); h != nil && h.Pkg != nil && h.Pkg.Pkg.Path() == pkg && len(h.Blocks) > 0 {
							rets := an.Returns(h)
							ok = len(rets) > 0
							for _, r := range rets {
								if len(r.Results) != 1 || !freeAt(r, an.ReturnedValue(r, 0)) {
									ok = false
								}
							}
						}
					}
				}
				c.R.Check(ok, shortFn(topFn(fn))+"/store:Import.Alias", c.ipos(st), "alias looked up and found free", "an import alias is assigned without having been looked up among the aliases already in use: it can coincide with another import's name or reserved alias, and the generated file declares the same import name twice (does not compile)")
			}
		}
	}
	if n < 2 {
		c.R.Fail("alias-unique found only %d stores to Import.Alias", n)
	}
}

// c17ResolverFileKey: the follow-schema resolver generator collects what goes into each output file in a map of *File and
// renders one file per map entry.  Two entries with the same File.name would be rendered to the same path, the later silently
// overwriting the earlier (methods or root accessors go missing and the package stops type-checking).  The map therefore has
// to be keyed by the file name itself: for every insertion of a *File, the key is computed from the very value stored in that
// File's name field (identity, or a function of it such as strings.ToLower).
func c17ResolverFileKey(c *Ctx) {
	c.R.Rule("resolver-file-key", "in plugin/resolvergen every *File inserted into a map is keyed by a value computed from that File's own name field (so that sources mapping to one output file share one entry)", 2)
	n := 0
	for _, fn := range c.moduleFuncs(func(p string) bool { return p == pkgResolvergen }) {
		for _, b := range fn.Blocks {
			for _, in := range b.Instrs {
				mu, ok := in.(*ssa.MapUpdate)
				if !ok || !an.NamedIs(mu.Value.Type(), pkgResolvergen, "File") {
					continue
				}
				if _, isPtr := mu.Value.Type().Underlying().(*types.Pointer); !isPtr {
					continue
				}
				n++
				key := shortFn(topFn(fn)) + "/files-insert"
				var names []ssa.Value
				for _, d := range an.Defs(mu.Value) {
					al, isAl := d.(*ssa.Alloc)
					if !isAl {
						continue
					}
					for _, r := range an.Referrers(al) {
						if fa, isFA := r.(*ssa.FieldAddr); isFA && fieldNameOf(fa) == "name" {
							for _, r2 := range an.Referrers(fa) {
								if st, isSt := r2.(*ssa.Store); isSt {
									names = append(names, st.Val)
								}
							}
						}
					}
				}
				if len(names) == 0 {
					c.R.Note(key, c.ipos(mu), "the inserted File is not a literal of this function; not judged")
					continue
				}
				ok2 := true
				for _, nm := range names {
					if !computedFrom(mu.Key, nm, 0, map[ssa.Value]bool{}) {
						ok2 = false
					}
				}
				c.R.Check(ok2, key, c.ipos(mu), "keyed by (a function of) the File's own name", "a resolver File is filed under a key that is not computed from its own output name: two schema sources that map to the same resolver file get two entries, and the file rendered last overwrites the other (resolvers or root accessors silently missing, the package no longer type-checks)")
			}
		}
	}
	if n < 2 {
		c.R.Fail("resolver-file-key found only %d insertions of a *File into a map", n)
	}
}

// computedFrom: value v is src, or is computed from it through calls, conversions, operators and local variables.
func computedFrom(v, src ssa.Value, depth int, seen map[ssa.Value]bool) bool {
	if v == nil || depth > 12 || seen[v] {
		return false
	}
	seen[v] = true
	if v == src || an.SameVar(v, src) {
		return true
	}
	for _, d := range an.Defs(v) {
		if d == src || an.SameVar(d, src) {
			return true
		}
		in, ok := d.(ssa.Instruction)
		if !ok {
			continue
		}
		if _, isAlloc := d.(*ssa.Alloc); isAlloc {
			continue
		}
		for _, op := range in.Operands(nil) {
			if *op != nil && computedFrom(*op, src, depth+1, seen) {
				return true
			}
		}
	}
	return false
}

// trueReturnsUpdate: every return of the boolean function cl that may yield true is preceded on all paths by a MapUpdate of global g.
func trueReturnsUpdate(cl *ssa.Function, g *ssa.Global) bool {
	n := 0
	for _, r := range an.Returns(cl) {
		if len(r.Results) != 1 {
			return false
		}
		if k, isC := an.ReturnedValue(r, 0).(*ssa.Const); isC && k.Value != nil && k.Value.String() == "false" {
			continue
		}
		n++
		if !mustPassThrough(cl, r, func(in ssa.Instruction) bool {
			mu, isMU := in.(*ssa.MapUpdate)
			if !isMU {
				return false
			}
			g2, isG := loadGlobal(mu.Map)
			return isG && g2 == g
		}) {
			return false
		}
	}
	return n > 0
}
