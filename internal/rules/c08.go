package rules

import (
	"go/ast"
	"go/constant"
	"go/token"
	"go/types"
	"strconv"
	"strings"

	"golang.org/x/tools/go/ssa"

	"verif/internal/an"
	"verif/internal/pipeline"
)

func init() {
	register(&Property{
		ID:      "C08",
		NeedGen: true,
		Runtime: append(append([]string{}, RuntimeCore...), "./codegen/config"),
		Run:     runC08,
		Explanation: "Only the structural guards of serialisation (the byte-level correctness of the escaper and round trips are value-level and NOT decided): (punctuation) FieldSet.MarshalGQL and Array.MarshalGQL write the " +
			"matching open/close token exactly once (open first, close last on every path), the comma only on the index != 0 edge before the element, and FieldSet writes key (through the quoting sink), colon, value in " +
			"that order; (string-sink) in package graphql's built-in marshalers a caller-supplied string reaches an io.Writer only through writeQuotedString, strconv.Quote or encoding/json; (time-codec) MarshalTime's constant layout keeps date, time, nanoseconds and zone offset and UnmarshalTime parses that layout; (float-guard) " +
			"MarshalFloatContext formats only on the !IsInf && !IsNaN edge; (lossy-conv) every narrowing or sign-changing integer conversion in graphql.Unmarshal*/safeCast* is dominated by range tests of the same " +
			"value against constants inside the target type's range; (utf8) the quoting sink performs a UTF-8 validity operation.",
		NotDecided:  "byte-level correctness of writeQuotedString's escapes, decode(encode(v)) == v for every value, Time/Duration/UUID/Map/Any encodings (delegated to the standard library)",
		Assumptions: []string{"strconv formatting functions emit ASCII digits/signs only", "encoding/json emits valid JSON"},
	})
}

// byteLitGlobals maps package-level []byte vars of package graphql initialised from a string literal to that literal.
func (c *Ctx) byteLitGlobals() map[*ssa.Global]string {
	out := map[*ssa.Global]string{}
	tp := c.W.TPkg(pkgGraphql)
	sp := c.W.Pkg(pkgGraphql)
	if tp == nil || sp == nil {
		return out
	}
	for _, f := range tp.Syntax {
		ast.Inspect(f, func(n ast.Node) bool {
			vs, ok := n.(*ast.ValueSpec)
			if !ok {
				return true
			}
			for i, nm := range vs.Names {
				if i >= len(vs.Values) {
					continue
				}
				call, ok := vs.Values[i].(*ast.CallExpr)
				if !ok || len(call.Args) != 1 {
					continue
				}
				bl, ok := call.Args[0].(*ast.BasicLit)
				if !ok || bl.Kind != token.STRING {
					continue
				}
				s, err := strconv.Unquote(bl.Value)
				if err != nil {
					continue
				}
				if g, ok := sp.Members[nm.Name].(*ssa.Global); ok {
					out[g] = s
				}
			}
			return true
		})
	}
	return out
}

type wr struct {
	in   ssa.Instruction
	kind string // lit:<text> | key | value
}

func runC08(c *Ctx) {
	lits := c.byteLitGlobals()
	quote := c.fn(pkgGraphql, "writeQuotedString")

	c.R.Rule("punctuation", "FieldSet.MarshalGQL / Array.MarshalGQL: one open token first, one matching close token last on every path, comma only on the index != 0 edge and before the element, key→colon→value order", 2)
	for _, spec := range []struct{ fn, open, close string }{{"*FieldSet.MarshalGQL", "{", "}"}, {"Array.MarshalGQL", "[", "]"}} {
		fn := c.fn(pkgGraphql, spec.fn)
		if fn == nil {
			continue
		}
		var ws []wr
		for _, b := range fn.Blocks {
			for _, in := range b.Instrs {
				call, ok := in.(ssa.CallInstruction)
				if !ok {
					continue
				}
				ci := an.CalleeOf(call)
				switch {
				case ci.Method != nil && ci.Method.Name() == "Write" && len(call.Common().Args) == 1:
					if g, ok := loadGlobal(call.Common().Args[0]); ok {
						ws = append(ws, wr{in, "lit:" + lits[g]})
					} else {
						ws = append(ws, wr{in, "raw"})
					}
				case ci.Static != nil && ci.Static == quote:
					ws = append(ws, wr{in, "key"})
				case ci.Method != nil && ci.Method.Name() == "MarshalGQL":
					ws = append(ws, wr{in, "value"})
				}
			}
		}
		find := func(kind string) []wr {
			var out []wr
			for _, w := range ws {
				if w.kind == kind {
					out = append(out, w)
				}
			}
			return out
		}
		bad := ""
		opens, closes, commas, values := find("lit:"+spec.open), find("lit:"+spec.close), find("lit:,"), find("value")
		if len(find("raw")) > 0 {
			bad = "writes bytes that are not one of the punctuation tokens"
		}
		peeled := false
		if len(opens) == 1 && len(closes) == 1 && len(commas) == 1 && len(values) == 2 && bad == "" {
			// peeled form: `if len(a) > 0 { a[0].MarshalGQL(w); for _, v := range a[1:] { w.Write(comma); v.MarshalGQL(w) } }`
			v0, vIn := values[0].in, values[1].in
			if an.CanReach(v0, v0) {
				v0, vIn = vIn, v0
			}
			cm := commas[0].in
			hasTail := false
			for _, b := range fn.Blocks {
				for _, in := range b.Instrs {
					if sl, ok := in.(*ssa.Slice); ok && sl.Low != nil {
						if k, isC := an.ConstInt(sl.Low); isC && k == 1 {
							hasTail = true
						}
					}
				}
			}
			nonEmpty := false
			for _, f := range an.Facts(v0) {
				if n, isC := an.ConstInt(f.Y); isC && n == 0 && (f.Op == token.GTR || f.Op == token.NEQ) {
					nonEmpty = true
				}
			}
			switch {
			case an.CanReach(v0, v0) || !an.CanReach(vIn, vIn):
				bad = "two element writes that are not (first element, loop over the rest)"
			case !hasTail || !nonEmpty:
				bad = "the first element is written separately but the loop does not start at the second element (or the list may be empty there)"
			case !an.Before(cm, vIn) || !an.CanReach(cm, cm):
				bad = "in the loop over the remaining elements the comma does not precede every element"
			case !an.Before(opens[0].in, v0) || !an.CanReach(v0, cm):
				bad = "the first element is not written between the opening token and the first comma"
			default:
				peeled = true
				for _, r := range an.Returns(fn) {
					if !an.Before(closes[0].in, r) {
						bad = "a return is reachable without writing the closing token"
					}
				}
				for _, w := range ws {
					if w.in != closes[0].in && an.CanReach(closes[0].in, w.in) {
						bad = "a write at " + c.ipos(w.in) + " can follow the closing token"
					}
				}
			}
		}
		if peeled || bad != "" && len(values) == 2 {
			// decided above
		} else if len(opens) != 1 || len(closes) != 1 || len(commas) != 1 || len(values) != 1 {
			bad = sprintf("expected exactly one open, close, comma and element write, found %d/%d/%d/%d", len(opens), len(closes), len(commas), len(values))
		} else {
			o, cl, cm, v := opens[0].in, closes[0].in, commas[0].in, values[0].in
			for _, w := range ws {
				if w.in != o && !an.Before(o, w.in) {
					bad = "a write at " + c.ipos(w.in) + " is not preceded by the opening token on every path"
				}
				if w.in != cl && an.CanReach(cl, w.in) {
					bad = "a write at " + c.ipos(w.in) + " can follow the closing token"
				}
			}
			for _, r := range an.Returns(fn) {
				if !an.Before(cl, r) {
					bad = "a return is reachable without writing the closing token"
				}
			}
			// comma guarded by index != 0
			okc := false
			for _, f := range an.Facts(cm) {
				if n, isC := an.ConstInt(f.Y); isC && n == 0 && f.Op == token.NEQ {
					okc = true
				}
				if n, isC := an.ConstInt(f.Y); isC && n == 0 && f.Op == token.GTR {
					okc = true
				}
			}
			if !okc {
				bad = "the comma is not written exactly on the index != 0 edge"
			}
			if !an.CanReach(cm, v) || an.CanReach(v, cm) && !sameLoop(cm, v) {
				bad = "the comma does not precede the element"
			}
			// the element write happens on both edges (i == 0 and i != 0): the comma's If block must dominate the value write
			if g := an.Guards(cm); len(g) > 0 && !g[0].If.Block().Dominates(v.Block()) {
				bad = "the element is not written on every iteration"
			}
			if spec.open == "{" {
				keys, colons := find("key"), find("lit::")
				if len(keys) != 1 || len(colons) != 1 {
					bad = "expected one key write through the quoting sink and one colon"
				} else if !(an.Before(keys[0].in, colons[0].in) && an.Before(colons[0].in, v)) || !an.CanReach(cm, keys[0].in) {
					bad = "key, colon and value are not written in this order after the comma"
				}
			}
		}
		c.R.Check(bad == "", shortFn(fn), c.pos(fn.Pos()), sprintf("%d writes in grammar order", len(ws)), bad)
	}

	// ---------------------------------------------------------------------------------------------
	c.R.Rule("string-sink", "in package graphql, inside Marshal* functions and their closures, a value derived from a string/[]byte the caller supplied is written to an io.Writer only through the quoting sink, strconv.Quote or encoding/json", 10)
	n := 0
	for _, fn := range c.moduleFuncs(func(p string) bool { return p == pkgGraphql }) {
		top := topFn(fn)
		if !strings.HasPrefix(top.Name(), "Marshal") || top.Signature.Recv() != nil {
			continue
		}
		for _, call := range an.CallsIn(fn, func(_ ssa.CallInstruction, ci an.CalleeInfo) bool {
			nm := ci.FullName()
			return nm == "io.WriteString" || strings.HasPrefix(nm, "fmt.Fprint") || (ci.Method != nil && ci.Method.Name() == "Write")
		}) {
			n++
			key := shortFn(top) + "/write"
			bad := ""
			args := call.Common().Args
			for _, a := range args {
				if why := callerString(a, 0); why != "" {
					bad = "raw write of caller-supplied text (" + why + ") that bypasses the quoting sink: quotes, backslashes and control characters reach the output unescaped"
				}
			}
			c.R.Check(bad == "", key, c.ipos(call), "operands are constants or strconv-formatted numbers", bad)
		}
		for _, call := range an.CallsIn(fn, func(_ ssa.CallInstruction, ci an.CalleeInfo) bool { return ci.Static != nil && ci.Static == quote }) {
			n++
			c.R.OK(shortFn(top)+"/quoted", c.ipos(call), "goes through writeQuotedString")
		}
	}
	if n < 10 {
		c.R.Fail("string-sink examined only %d write sites", n)
	}

	// ---------------------------------------------------------------------------------------------
	c08FloatGuard(c)

	lossyConv(c, "C08")
	c08TimeCodec(c)
	adapterWritesOnError(c)
	omittableSetOnSuccess(c)
	parseWidth(c)
	jsonControlBound(c)
	nilListIsNullOnly(c)
	layoutAgreement(c)
	genRound2(c)
	encodeErrorsKept(c)
	errorsNotDropped(c)
	floatBuiltinReportsNonFinite(c)
	omittableValueOnlyWhenSet(c)

	// ---------------------------------------------------------------------------------------------
	c.R.Rule("utf8", "the quoting sink (writeQuotedString) reaches a UTF-8 validity operation (utf8.RuneError comparison, utf8.Valid*, strings.ToValidUTF8), and its replacement branch depends on the decoded width so that an encoded U+FFFD is preserved", 2)
	if quote != nil {
		ok := false
		for _, fn := range an.WithClosures(quote) {
			for _, b := range fn.Blocks {
				for _, in := range b.Instrs {
					if call, isCall := in.(ssa.CallInstruction); isCall {
						n := an.CalleeOf(call).FullName()
						if strings.HasPrefix(n, "unicode/utf8.Valid") || n == "strings.ToValidUTF8" || n == "unicode/utf8.DecodeRuneInString" || n == "unicode/utf8.DecodeRune" {
							ok = true
						}
					}
					if bo, isBo := in.(*ssa.BinOp); isBo && (bo.Op == token.EQL || bo.Op == token.NEQ) {
						for _, v := range []ssa.Value{bo.X, bo.Y} {
							if cv, isC := v.(*ssa.Const); isC && cv.Value != nil && cv.Value.Kind() == constant.Int {
								if i, exact := constant.Int64Val(cv.Value); exact && i == 0xFFFD {
									ok = true
								}
							}
						}
					}
				}
			}
		}
		c.R.Check(ok, "writeQuotedString/utf8", c.pos(quote.Pos()), "replaces invalid sequences", "the quoting sink never tests UTF-8 validity: invalid bytes in a string are copied verbatim and the response is not valid UTF-8 JSON")
		// the replacement branch must distinguish a malformed byte (decoded width 1) from a correctly encoded U+FFFD (width 3):
		// everything that is control-dependent on `rune == utf8.RuneError` and writes or advances is also dependent on a width test
		bad := ""
		n := 0
		for _, b := range quote.Blocks {
			for _, in := range b.Instrs {
				call, isCall := in.(*ssa.Call)
				_, isStore := in.(*ssa.Store)
				if isCall {
					// only output operations count, not the width computation itself
					nm := an.CalleeOf(call).FullName()
					if !(nm == "io.WriteString" || strings.HasPrefix(nm, "fmt.Fprint") || (call.Call.IsInvoke() && call.Call.Method.Name() == "Write")) {
						continue
					}
				}
				if !isCall && !isStore {
					continue
				}
				onRuneError, onWidth := false, false
				for _, f := range an.Facts(in) {
					if f.Op == token.EQL {
						for _, v := range []ssa.Value{f.X, f.Y} {
							if k, isC := an.ConstInt(v); isC && k == 0xFFFD {
								onRuneError = true
							}
						}
					}
					for _, v := range []ssa.Value{f.X, f.Y} {
						if ex, isE := v.(*ssa.Extract); isE && ex.Index == 1 {
							if cc, isC := ex.Tuple.(*ssa.Call); isC && strings.HasPrefix(an.CalleeOf(cc).FullName(), "unicode/utf8.DecodeRune") {
								onWidth = true
							}
						}
						if cc, isC := v.(*ssa.Call); isC && (an.CalleeOf(cc).FullName() == "unicode/utf8.RuneLen" || strings.HasPrefix(an.CalleeOf(cc).FullName(), "unicode/utf8.Valid")) {
							onWidth = true
						}
					}
				}
				if onRuneError {
					n++
					if !onWidth {
						bad = "the instruction at " + c.ipos(in) + " runs for every rune equal to U+FFFD without testing the decoded width: a correctly encoded U+FFFD in the input is treated as one bad byte and its remaining bytes are emitted raw (invalid UTF-8)"
					}
				}
			}
		}
		c.R.Check(bad == "" && n > 0, "writeQuotedString/utf8-width", c.pos(quote.Pos()), sprintf("%d instructions of the replacement branch, all behind a width test", n), bad)
	}
}

func sameLoop(a, b ssa.Instruction) bool { return an.CanReach(a, b) && an.CanReach(b, a) }

func loadGlobal(v ssa.Value) (*ssa.Global, bool) {
	if u, ok := v.(*ssa.UnOp); ok && u.Op == token.MUL {
		g, ok := u.X.(*ssa.Global)
		return g, ok
	}
	return nil, false
}

// callerString reports why v is caller-supplied text ("" if it is not): derives from a string/[]byte
// parameter or captured variable without passing through strconv number formatting.
func callerString(v ssa.Value, depth int) string {
	if depth > 10 {
		return ""
	}
	t := v.Type().Underlying()
	isText := false
	if b, ok := t.(*types.Basic); ok && b.Info()&types.IsString != 0 {
		isText = true
	}
	if s, ok := t.(*types.Slice); ok {
		if b, ok := s.Elem().Underlying().(*types.Basic); ok && b.Kind() == types.Byte {
			isText = true
		}
	}
	if _, ok := t.(*types.Interface); ok {
		isText = true // variadic ...any of Fprint
	}
	if !isText {
		return ""
	}
	for _, d := range an.Defs(v) {
		switch x := d.(type) {
		case *ssa.Const:
		case *ssa.Parameter:
			if isStringy(x.Type()) {
				return "parameter " + x.Name()
			}
		case *ssa.FreeVar:
			if p, ok := x.Type().(*types.Pointer); ok && isStringy(p.Elem()) {
				return "captured " + x.Name()
			}
		case *ssa.UnOp:
			if x.Op == token.MUL {
				if fv, ok := x.X.(*ssa.FreeVar); ok {
					if p, ok := fv.Type().(*types.Pointer); ok && isStringy(p.Elem()) {
						return "captured " + fv.Name()
					}
				}
				if _, ok := loadGlobal(x); ok {
					continue
				}
			}
		case *ssa.Call:
			n := an.CalleeOf(x).FullName()
			if strings.HasPrefix(n, "strconv.Format") || n == "strconv.Itoa" || n == "strconv.Quote" || strings.HasPrefix(n, "strconv.Append") {
				continue
			}
			for _, a := range x.Call.Args {
				if why := callerString(a, depth+1); why != "" {
					return why + " via " + n
				}
			}
		case *ssa.Slice:
			if why := callerString(x.X, depth+1); why != "" {
				return why
			}
		case *ssa.Convert:
			if why := callerString(x.X, depth+1); why != "" {
				return why
			}
		case *ssa.MakeInterface:
			if why := callerString(x.X, depth+1); why != "" {
				return why
			}
		case *ssa.BinOp:
			for _, o := range []ssa.Value{x.X, x.Y} {
				if why := callerString(o, depth+1); why != "" {
					return why
				}
			}
		case *ssa.Alloc:
			// variadic slice backing array: look at what is stored into it
			for _, st := range an.CellStores(x) {
				if why := callerString(st.Val, depth+1); why != "" {
					return why
				}
			}
			for _, r := range an.Referrers(x) {
				if ia, ok := r.(*ssa.IndexAddr); ok {
					for _, r2 := range an.Referrers(ia) {
						if st, ok := r2.(*ssa.Store); ok {
							if why := callerString(st.Val, depth+1); why != "" {
								return why
							}
						}
					}
				}
			}
		}
	}
	return ""
}

func isStringy(t types.Type) bool {
	switch u := t.Underlying().(type) {
	case *types.Basic:
		return u.Info()&types.IsString != 0
	case *types.Slice:
		b, ok := u.Elem().Underlying().(*types.Basic)
		return ok && b.Kind() == types.Byte
	}
	return false
}

// pipelineFuncPkg: the package path of a function ("" for synthetic wrappers without a package).
func pipelineFuncPkg(f *ssa.Function) string {
	if f.Pkg != nil {
		return f.Pkg.Pkg.Path()
	}
	return ""
}

// c08FloatGuard: shared with C01 (a non-finite float must become null + error, not an invalid token).
func c08FloatGuard(c *Ctx) {
	c.R.Rule("float-guard", "MarshalFloatContext formats the float only on the edge where math.IsInf and math.IsNaN are both false, and the other edge returns an error; no other runtime function hands a float to the unguarded legacy formatter MarshalFloat (or to strconv.FormatFloat inside a Marshal* function) without that test", 1)
	if fn := c.fn(pkgGraphql, "MarshalFloatContext"); fn != nil {
		done := false
		// the marshaler's body: the function literals of MarshalFloatContext, or a method of the package it returns as a method value
		// (`ContextWriterFunc(floatWriter(f).writeContext)`: a bound-method wrapper that calls the method)
		bodies := an.WithClosures(fn)
		seenBody := map[*ssa.Function]bool{}
		for _, b := range bodies {
			seenBody[b] = true
		}
		for i := 0; i < len(bodies) && i < 16; i++ {
			for _, blk := range bodies[i].Blocks {
				for _, in := range blk.Instrs {
					var callee *ssa.Function
					switch x := in.(type) {
					case *ssa.MakeClosure:
						callee, _ = x.Fn.(*ssa.Function)
					case ssa.CallInstruction:
						callee = x.Common().StaticCallee()
					}
					if callee == nil || seenBody[callee] || len(callee.Blocks) == 0 {
						continue
					}
					if p := pipelineFuncPkg(callee); p != pkgGraphql && p != "" {
						continue
					}
					if callee.Synthetic == "" && callee.Signature.Recv() == nil && callee.Parent() == nil {
						continue // an ordinary package function: not part of this marshaler's body
					}
					seenBody[callee] = true
					bodies = append(bodies, callee)
				}
			}
		}
		for _, cl := range bodies {
			for _, call := range an.CallsIn(cl, func(_ ssa.CallInstruction, ci an.CalleeInfo) bool {
				return strings.HasPrefix(ci.FullName(), "fmt.Fprint")
			}) {
				done = true
				inf, nan := false, false
				for _, f := range an.Facts(call) {
					if f.Op != token.ILLEGAL || !f.Neg {
						continue
					}
					if cc, ok := f.X.(*ssa.Call); ok {
						switch an.CalleeOf(cc).FullName() {
						case "math.IsInf":
							if sign, isC := an.ConstInt(cc.Call.Args[1]); isC && sign == 0 {
								inf = true // both infinities
							}
						case "math.IsNaN":
							nan = true
						}
					}
				}
				c.R.Check(inf && nan, "MarshalFloatContext/format", c.ipos(call), "guarded by !IsInf && !IsNaN", sprintf("non-finite floats reach the formatter (IsInf tested: %v, IsNaN tested: %v): Inf/NaN tokens are not JSON", inf, nan))
			}
		}
		if !done {
			c.R.Bad("MarshalFloatContext/format", c.pos(fn.Pos()), "no formatting call found")
		}
	}

	// the unguarded legacy formatter graphql.MarshalFloat ("%g", writes NaN/+Inf/-Inf verbatim) may be used by gqlgen's own
	// marshalers only on an edge where the value is known to be finite
	finiteGuard := func(call ssa.Instruction, v ssa.Value) bool {
		inf, nan := false, false
		for _, f := range an.Facts(call) {
			if f.Op != token.ILLEGAL || !f.Neg {
				continue
			}
			if cc, ok := f.X.(*ssa.Call); ok && len(cc.Call.Args) > 0 && an.SameVar(cc.Call.Args[0], v) {
				switch an.CalleeOf(cc).FullName() {
				case "math.IsInf":
					if sign, isC := an.ConstInt(cc.Call.Args[1]); isC && sign == 0 {
						inf = true
					}
				case "math.IsNaN":
					nan = true
				}
			}
		}
		return inf && nan
	}
	rawFloat := c.W.Func(pkgGraphql, "MarshalFloat")
	for _, fn := range c.moduleFuncs(isRuntimePkg) {
		if topFn(fn) == rawFloat {
			continue
		}
		for _, call := range an.CallsIn(fn, func(_ ssa.CallInstruction, ci an.CalleeInfo) bool { return rawFloat != nil && ci.Static == rawFloat }) {
			v := call.Common().Args[0]
			c.R.Check(finiteGuard(call, v), shortFn(topFn(fn))+"→MarshalFloat", c.ipos(call), "guarded by !IsInf && !IsNaN",
				"a float reaches the unguarded formatter graphql.MarshalFloat without a finiteness test: NaN and ±Inf are written as `NaN` / `+Inf`, which is not JSON, and no error is reported")
		}
		// raw formatting of a float64 inside package graphql's marshalers
		if pipeline.FuncPkgPath(fn) != pkgGraphql || !strings.HasPrefix(strings.ToLower(topFn(fn).Name()), "marshal") || topFn(fn).Name() == "MarshalFloatContext" {
			continue
		}
		for _, call := range an.CallsIn(fn, func(_ ssa.CallInstruction, ci an.CalleeInfo) bool {
			n := ci.FullName()
			return n == "strconv.FormatFloat" || n == "strconv.AppendFloat"
		}) {
			idx := 0
			if an.CalleeOf(call).FullName() == "strconv.AppendFloat" {
				idx = 1
			}
			v := call.Common().Args[idx]
			c.R.Check(finiteGuard(call, v), shortFn(topFn(fn))+"→FormatFloat", c.ipos(call), "guarded by !IsInf && !IsNaN", "a float is formatted for output without a finiteness test: NaN and ±Inf are not JSON")
		}
	}
}
