package rules

import (
	"strings"

	"golang.org/x/tools/go/ssa"

	"verif/internal/an"
)

// c18SortedBeforeRead: side condition of the reviewed map-order entry for modelgen's MutateConfig ("Enums, Models and Interfaces are
// sorted right after the loop").  The loop over cfg.Schema.Types (a map) appends to fields of the ModelBuild in map order; the
// entry is only sound if nothing reads those fields between the loop and their sort.  For each field of the ModelBuild literal
// that is handed to sort.Slice / sort.SliceStable / slices.SortFunc in MutateConfig: every other read of that field, every call
// that receives the ModelBuild itself and every function literal capturing it — outside the map loop — is dominated by that
// sort.  (The cycle breaker, for one, decides which of two mutually referring structs gets the pointer by visiting order.)
func c18SortedBeforeRead(c *Ctx) {
	c.R.Rule("sorted-before-read", "modelgen.MutateConfig: the slices filled while ranging over the schema's type map are not read, and the ModelBuild holding them is not handed to any function or closure, before the sort of each of them", 3)
	fn := c.W.Func(modPath("plugin/modelgen"), "*Plugin.MutateConfig")
	if fn == nil || len(fn.Blocks) == 0 {
		c.R.Fail("unresolved anchor: modelgen.(*Plugin).MutateConfig")
		return
	}
	inLoop := map[*ssa.BasicBlock]bool{}
	for _, l := range an.Loops(fn) {
		isMapRange := false
		for _, in := range l.Header.Instrs {
			if nx, ok := in.(*ssa.Next); ok && !nx.IsString {
				isMapRange = true
			}
		}
		if isMapRange {
			for b := range l.Blocks {
				inLoop[b] = true
			}
		}
	}
	type sorted struct {
		call  ssa.Instruction
		field string
		base  ssa.Value
	}
	var sorts []sorted
	isSort := func(n string) bool {
		return n == "sort.Slice" || n == "sort.SliceStable" || strings.HasPrefix(n, "slices.SortFunc") || strings.HasPrefix(n, "slices.SortStableFunc") || n == "sort.Sort" || n == "sort.Stable"
	}
	for _, b := range fn.Blocks {
		for _, in := range b.Instrs {
			call, ok := in.(*ssa.Call)
			if !ok || !isSort(an.CalleeOf(call).FullName()) || len(call.Call.Args) == 0 {
				continue
			}
			if fa, ok := loadAddr(an.Strip(call.Call.Args[0])).(*ssa.FieldAddr); ok {
				if _, isAl := an.RootAlloc(fa.X).(*ssa.Alloc); isAl || true {
					sorts = append(sorts, sorted{call, fieldNameOf(fa), fa.X})
				}
			}
		}
	}
	if len(sorts) < 3 {
		c.R.Fail("sorted-before-read: expected the sorts of Enums, Models and Interfaces in MutateConfig, found %d", len(sorts))
		return
	}
	for _, s := range sorts {
		bad := ""
		isSortArg := func(v ssa.Value) bool {
			for _, a := range s.call.(*ssa.Call).Call.Args {
				if an.Strip(a) == v {
					return true
				}
			}
			return false
		}
		for _, b := range fn.Blocks {
			if inLoop[b] {
				continue
			}
			for _, in := range b.Instrs {
				if in == s.call {
					continue
				}
				use := ""
				switch x := in.(type) {
				case *ssa.UnOp:
					if fa, ok := x.X.(*ssa.FieldAddr); ok && fieldNameOf(fa) == s.field && an.SameVar(fa.X, s.base) && !isSortArg(x) {
						// a load that only feeds another sort of the same field, or the len() of a make, is still a read
						use = "reads ." + s.field
					}
				case *ssa.MakeClosure:
					if isSortArg(x) {
						continue
					}
					for _, bnd := range x.Bindings {
						if bnd == s.base || an.SameVar(bnd, s.base) {
							use = "captures the ModelBuild in a function literal"
						}
					}
				case ssa.CallInstruction:
					if isSort(an.CalleeOf(x).FullName()) {
						continue
					}
					for _, a := range x.Common().Args {
						if a == s.base || an.SameVar(a, s.base) {
							use = "hands the ModelBuild to " + an.CalleeOf(x).FullName()
						}
					}
				}
				if use == "" {
					continue
				}
				if !an.Before(s.call, in) {
					bad = c.ipos(in) + " " + use + " before ." + s.field + " is sorted: the slice is still in map-iteration order there, so what this code derives from it (e.g. which struct of a cycle gets the pointer) differs from run to run"
				}
			}
		}
		c.R.Check(bad == "", "MutateConfig/sort:"+s.field, c.ipos(s.call), "every other use of the field or of the ModelBuild is dominated by this sort", bad)
	}
}
