package rules

import (
	"go/constant"
	"go/token"
	"go/types"
	"sort"
	"strings"

	"golang.org/x/tools/go/ssa"

	"verif/internal/an"
)

// c16KindTable: which kinds of type a __Type accessor answers for (GraphQL specification, section 4.2 "Type kinds": fields —
// OBJECT and INTERFACE; interfaces — OBJECT and INTERFACE; possibleTypes — INTERFACE and UNION; enumValues — ENUM;
// inputFields — INPUT_OBJECT).  An accessor that tests fewer kinds returns the empty list for a kind the schema uses, and that
// part of the schema cannot be rebuilt from the description.
var c16KindTable = map[string][]string{
	"Fields":        {"INTERFACE", "OBJECT"},
	"Interfaces":    {"INTERFACE", "OBJECT"},
	"PossibleTypes": {"INTERFACE", "UNION"},
	"EnumValues":    {"ENUM"},
	"InputFields":   {"INPUT_OBJECT"},
}

func c16Small(c *Ctx) {
	// (1) kind table
	c.R.Rule("kind-table", "introspection.(*Type).{Fields,Interfaces,PossibleTypes,EnumValues,InputFields}: the set of definition kinds the accessor compares t.def.Kind with is exactly the set of kinds the GraphQL specification defines that attribute for", len(c16KindTable))
	names := make([]string, 0, len(c16KindTable))
	for n := range c16KindTable {
		names = append(names, n)
	}
	sort.Strings(names)
	for _, name := range names {
		fn := c.W.Func(pkgIntrosp, "*Type."+name)
		if fn == nil || len(fn.Blocks) == 0 {
			c.R.Fail("unresolved anchor: introspection.(*Type).%s", name)
			continue
		}
		got := map[string]bool{}
		for _, b := range fn.Blocks {
			for _, in := range b.Instrs {
				bo, ok := in.(*ssa.BinOp)
				if !ok || bo.Op != token.EQL && bo.Op != token.NEQ {
					continue
				}
				for _, pair := range [][2]ssa.Value{{bo.X, bo.Y}, {bo.Y, bo.X}} {
					fa, isF := loadAddr(pair[0]).(*ssa.FieldAddr)
					k, isC := pair[1].(*ssa.Const)
					if isF && isC && fieldNameOf(fa) == "Kind" && k.Value != nil && k.Value.Kind() == constant.String {
						got[constant.StringVal(k.Value)] = true
					}
				}
			}
		}
		// the kinds may be handed to a predicate of the package as variadic arguments: t.isOneOfKinds(ast.Object, ast.Interface)
		for _, call := range an.CallsIn(fn, func(_ ssa.CallInstruction, ci an.CalleeInfo) bool {
			return ci.Static != nil && ci.Static.Pkg == fn.Pkg && ci.Static.Signature.Variadic()
		}) {
			args := call.Common().Args
			sl, ok := args[len(args)-1].(*ssa.Slice)
			if !ok {
				continue
			}
			arr, ok := sl.X.(*ssa.Alloc)
			if !ok {
				continue
			}
			for _, ref := range an.Referrers(arr) {
				ia, ok := ref.(*ssa.IndexAddr)
				if !ok {
					continue
				}
				for _, r2 := range an.Referrers(ia) {
					if st, ok := r2.(*ssa.Store); ok {
						if k, isC := st.Val.(*ssa.Const); isC && k.Value != nil && k.Value.Kind() == constant.String && strings.HasSuffix(k.Type().String(), "DefinitionKind") {
							got[constant.StringVal(k.Value)] = true
						}
					}
				}
			}
		}
		var gl []string
		for k := range got {
			gl = append(gl, k)
		}
		sort.Strings(gl)
		want := c16KindTable[name]
		c.R.Check(strings.Join(gl, ",") == strings.Join(want, ","), "Type."+name, c.pos(fn.Pos()), "answers for "+strings.Join(want, ", "),
			"__Type."+lcFirst(name)+" is answered for kinds {"+strings.Join(gl, ", ")+"}, the specification defines it for {"+strings.Join(want, ", ")+"}: for the missing kind the attribute is always empty and that part of the schema cannot be rebuilt from the description")
	}

	// (2) filter loops
	c.R.Rule("filter-loops-total", "package introspection: every loop is left only from its header (a filtered element is skipped with continue; no break or return inside a loop): no element after a filtered one is lost", 5)
	nl := 0
	for _, fn := range c.moduleFuncs(func(p string) bool { return p == pkgIntrosp }) {
		if r := fn.Signature.Results(); r.Len() == 1 && r.At(0).Type().String() == "bool" {
			continue // a predicate: leaving its search loop with an answer is what it is for
		}
		for i, l := range an.Loops(fn) {
			nl++
			var at ssa.Instruction
			for _, e := range l.Exits {
				if e.From != l.Header {
					at = e.From.Instrs[len(e.From.Instrs)-1]
				}
			}
			pos := c.pos(fn.Pos())
			if at != nil {
				pos = c.ipos(at)
			}
			c.R.Check(at == nil, shortFn(topFn(fn))+sprintf("/loop#%d", i+1), pos, "left only from the header",
				"this loop over schema elements can be left early: the elements after the first filtered one (a deprecated enum value, a __ field) are missing from the description")
		}
	}
	if nl < 5 {
		c.R.Fail("filter-loops-total: %d loops in package introspection", nl)
	}

	// (3) wrapper literals are complete
	c.R.Rule("wrapper-literal-complete", "package introspection: every composite literal of Directive/EnumValue/Field/InputValue stores every field of the struct", 3)
	nlit := 0
	for _, fn := range c.moduleFuncs(func(p string) bool { return p == pkgIntrosp }) {
		k := 0
		for _, b := range fn.Blocks {
			for _, in := range b.Instrs {
				al, ok := in.(*ssa.Alloc)
				if !ok {
					continue
				}
				nt := namedStruct(al.Type())
				if nt == nil || nt.Obj().Pkg() == nil || nt.Obj().Pkg().Path() != pkgIntrosp {
					continue
				}
				switch nt.Obj().Name() {
				case "Directive", "EnumValue", "Field", "InputValue":
				default:
					continue
				}
				stored := map[int]bool{}
				for _, r := range an.Referrers(al) {
					if fa, ok := r.(*ssa.FieldAddr); ok {
						for _, r2 := range an.Referrers(fa) {
							if st, ok := r2.(*ssa.Store); ok && st.Addr == ssa.Value(fa) {
								stored[fa.Field] = true
							}
						}
					}
				}
				if len(stored) == 0 {
					continue
				}
				nlit++
				k++
				st := nt.Underlying().(*types.Struct)
				var missing []string
				for i := 0; i < st.NumFields(); i++ {
					if !stored[i] {
						missing = append(missing, st.Field(i).Name())
					}
				}
				c.R.Check(len(missing) == 0, shortFn(topFn(fn))+sprintf("/%s#%d", nt.Obj().Name(), k), c.ipos(al), "all fields set",
					"this "+nt.Obj().Name()+" is built without "+strings.Join(missing, ", ")+": the attribute is reported with its zero value for every element, whatever the schema says")
			}
		}
	}
	if nlit < 3 {
		c.R.Fail("wrapper-literal-complete: %d literals", nlit)
	}

	// (4) Description() returns the description
	c.R.Rule("description-accessor", "package introspection: every Description method returns nil or the address of a field named description/Description", 5)
	nd := 0
	for _, fn := range c.moduleFuncs(func(p string) bool { return p == pkgIntrosp }) {
		if fn.Name() != "Description" || fn.Signature.Recv() == nil {
			continue
		}
		nd++
		bad := ""
		for _, r := range an.Returns(fn) {
			if len(r.Results) != 1 {
				continue
			}
			v := an.Strip(r.Results[0])
			if an.IsNilConst(v) {
				continue
			}
			// `return optionalString(&x.description)`: a helper of the package that is handed the field's address
			if call, isCall := v.(*ssa.Call); isCall && call.Call.StaticCallee() != nil && call.Call.StaticCallee().Pkg == fn.Pkg {
				okArg := false
				for _, a := range call.Call.Args {
					if f2, isF := an.Strip(a).(*ssa.FieldAddr); isF && strings.EqualFold(fieldNameOf(f2), "description") {
						okArg = true
					} else if f2, isF := loadAddr(an.Strip(a)).(*ssa.FieldAddr); isF && strings.EqualFold(fieldNameOf(f2), "description") {
						okArg = true
					}
				}
				if !okArg {
					bad = "returns the result of a helper that is not given the description"
				}
				continue
			}
			fa, ok := v.(*ssa.FieldAddr)
			if !ok {
				if al, isAl := v.(*ssa.Alloc); isAl {
					// a copy: `d := x.Description; return &d`
					for _, st := range an.CellStores(al) {
						if f2, ok := loadAddr(st.Val).(*ssa.FieldAddr); ok && strings.EqualFold(fieldNameOf(f2), "description") {
							continue
						}
						bad = "returns a copy of something that is not the description"
					}
					continue
				}
				bad = "returns a value that is not a field address"
				continue
			}
			if !strings.EqualFold(fieldNameOf(fa), "description") {
				bad = "returns the address of ." + fieldNameOf(fa)
			}
		}
		c.R.Check(bad == "", shortFn(fn), c.pos(fn.Pos()), "returns the description field", "Description() "+bad+": the description reported for this element is another attribute's text")
	}
	if nd < 5 {
		c.R.Fail("description-accessor: %d Description methods", nd)
	}

	// (5) the disabled edge answers with an error
	c.R.Rule("disabled-is-error", "in every materialised package: a function that returns on the DisableIntrospection == true edge returns a non-nil error there (the field is null WITH an error)", 2*len(c.Gen))
	for _, g := range c.Gen {
		n := 0
		for _, fn := range c.genFuncs(g) {
			for _, r := range an.Returns(fn) {
				disabled := false
				for _, f := range an.Facts(r) {
					if f.Op == token.ILLEGAL && !f.Neg && isDisableIntrospectionLoad(f.X) {
						disabled = true
					}
				}
				if !disabled {
					continue
				}
				res := fn.Signature.Results()
				if res.Len() == 0 || !an.IsErrorType(res.At(res.Len()-1).Type()) {
					continue
				}
				n++
				ev := an.ReturnedValue(r, res.Len()-1)
				c.R.Check(ev != nil && !an.IsNilConst(an.Strip(ev)), "gen:"+g.Name+"/"+topFn(fn).Name()+"/disabled-return", c.ipos(r), "returns an error",
					"with introspection disabled this helper returns no error: the field is answered with a bare null, indistinguishable from an absent type, instead of null with an error")
			}
		}
		if n < 2 {
			c.R.Fail("gen:%s: disabled-is-error found %d disabled returns", g.Name, n)
		}
	}
}

func lcFirst(s string) string {
	if s == "" {
		return s
	}
	return strings.ToLower(s[:1]) + s[1:]
}
