package rules

import (
	"go/ast"
	"go/constant"
	"go/token"
	"go/types"
	"sort"
	"strings"

	"golang.org/x/tools/go/ssa"

	"verif/internal/an"
)

func init() {
	register(&Property{
		ID:      "C11",
		NeedGen: true, // the stream fields and the deferred-result wait of the generated executors end the operation too
		Runtime: RuntimeCore,
		Run:     runC11,
		Explanation: "Safety skeleton of the websocket connection state machine, on every path: (init-first) subscribe is called only from run, run only from Do on the init()==true edge; init returns true only under the " +
			"connection_init case and never from InitFunc's error edge, and builds no ack on that edge; (write-lock) every frame write (messageExchanger.Send, Conn.WriteMessage/WriteJSON) in wsConnection methods, and " +
			"every access to active/closed/receivedPong, holds mu; (close-once) in close() the close frame, cancellation of every active operation, Conn.Close and CloseFunc happen only on the !closed edge and closed " +
			"is set inside the critical section of its test; (terminal-frame) the operation goroutine sends complete XOR the subscription error exactly once, from a deferred epilogue registered before dispatch, and " +
			"the early-error paths of subscribe terminate the id and return; (exit-closes) every `return false` of init and every exit of run is covered by close (directly or through the deferred cancel that " +
			"closeOnCancel waits for); (tables) every message type the server constructs has a case in both subprotocols' fromMessage, every type run/init dispatch on is produced by a toMessage, and each subprotocol's " +
			"type constants all appear in its all…MessageTypes list. (per-operation-message) the message pointer a goroutine-starting method keeps does not point to a variable that later iterations of the read loop assign again.",
		NotDecided:  "per-id ordering of frames under all interleavings, stop-versus-complete races, timer behaviour (schedule-level); gorilla/websocket internals",
		Assumptions: []string{"gorilla/websocket allows one concurrent writer; Conn.Close unblocks readers"},
	})
}

const wsConn = "wsConnection"

func (c *Ctx) wsMethods() []*ssa.Function {
	var out []*ssa.Function
	for _, fn := range transportFuncs(c) {
		top := topFn(fn)
		if r := top.Signature.Recv(); r != nil && an.NamedIs(r.Type(), pkgTransport, wsConn) {
			out = append(out, fn)
		}
	}
	return out
}

// callsTo lists static call sites (call/go/defer) of a wsConnection method by name inside package transport.
func (c *Ctx) callsToWs(name string) []ssa.CallInstruction {
	var out []ssa.CallInstruction
	for _, fn := range transportFuncs(c) {
		out = append(out, an.CallsIn(fn, func(_ ssa.CallInstruction, ci an.CalleeInfo) bool {
			return ci.FullName() == "(*"+pkgTransport+"."+wsConn+")."+name
		})...)
	}
	return out
}

// msgTypeOf returns the constant message type stored into field t of the message literal passed as v (a *message).
func msgLitType(v ssa.Value) (int64, bool) {
	al, ok := an.Strip(v).(*ssa.Alloc)
	if !ok {
		return 0, false
	}
	for _, r := range an.Referrers(al) {
		fa, ok := r.(*ssa.FieldAddr)
		if !ok || fieldNameOf(fa) != "t" {
			continue
		}
		for _, r2 := range an.Referrers(fa) {
			if st, ok := r2.(*ssa.Store); ok {
				if n, ok := an.ConstInt(st.Val); ok {
					return n, true
				}
				return 0, false // the type is computed (`message{t: e.t, …}`): not a constant of this literal
			}
		}
	}
	// zero value: field t never stored -> initMessageType (0)
	return 0, true
}

func (c *Ctx) intConst(name string) (int64, bool) {
	v := c.constOf(pkgTransport, name)
	if v == nil {
		return 0, false
	}
	n, ok := constant.Int64Val(v)
	return n, ok
}

func runC11(c *Ctx) {
	c11InitFirst(c)
	c11WriteLock(c)
	c11CloseOnce(c)
	c11TerminalFrame(c)
	c11ExitCloses(c)
	c11Tables(c)
	c11PerOperationMessage(c)
	locksReleased(c, pkgTransport)
	// all connection goroutines end: their sends cannot wait for a reader that is gone (C05)
	c05TransportGoroutines(c)
	c05TransportBlocking(c)
	c11Round2(c)
}

func c11InitFirst(c *Ctx) {
	c.R.Rule("init-first", "subscribe is called only from run; run only from Websocket.Do on the init()==true edge; init returns true only under the connection_init case, never from InitFunc's error edge, and no ack message is built on that edge", 4)
	for _, call := range c.callsToWs("subscribe") {
		t := topFn(call.Parent())
		c.R.Check(t.Name() == "run" && call.Parent() == t, "subscribe/caller:"+t.Name(), c.ipos(call), "called from the read loop only", "subscribe is called from "+shortFn(t)+": an operation can start outside the post-handshake read loop")
		_, sync := call.(*ssa.Call)
		c.R.Check(sync, "subscribe/synchronous", c.ipos(call), "the read loop registers the operation before it reads the next frame", "subscribe is started with go/defer: the reader handles the next frame (a stop/complete for the same id) before the operation's cancel function is in `active`, so the stop is lost and the operation runs on unstoppably")
	}
	nrun := 0
	for _, call := range c.callsToWs("run") {
		nrun++
		t := topFn(call.Parent())
		ok := false
		for _, f := range an.Facts(call) {
			if f.Op == token.ILLEGAL && !f.Neg {
				if cc, isCall := f.X.(*ssa.Call); isCall && an.CalleeOf(cc).FullName() == "(*"+pkgTransport+"."+wsConn+").init" {
					ok = true
				}
			}
		}
		c.R.Check(ok && t.Name() == "Do", "run/caller:"+t.Name(), c.ipos(call), "dominated by init() == true", "the read loop is entered without a successful init(): operations run before the handshake was accepted")
	}
	if nrun == 0 {
		c.R.Fail("unresolved anchor: no call of wsConnection.run")
	}
	initFn := c.fn(pkgTransport, "*"+wsConn+".init")
	if initFn == nil {
		return
	}
	initT, _ := c.intConst("initMessageType")
	ackT, _ := c.intConst("connectionAckMessageType")
	// returns of true
	ntrue := 0
	for _, r := range an.Returns(initFn) {
		mayTrue := false
		for _, d := range an.Defs(r.Results[0]) {
			if cv, ok := d.(*ssa.Const); !ok || cv.Value == nil || constant.BoolVal(cv.Value) {
				mayTrue = true
			}
		}
		if !mayTrue {
			continue
		}
		ntrue++
		ok := false
		for _, f := range an.Facts(r) {
			if f.Op != token.EQL {
				continue
			}
			for _, pr := range [][2]ssa.Value{{f.X, f.Y}, {f.Y, f.X}} {
				if n, isC := an.ConstInt(pr[1]); isC && n == initT && isMessageTypeLoad(pr[0]) {
					ok = true
				}
			}
		}
		c.R.Check(ok, "init/return-true", c.ipos(r), "only under case initMessageType", "init can return true for a first message that is not connection_init")
	}
	if ntrue == 0 {
		c.R.Bad("init/return-true", c.pos(initFn.Pos()), "init never returns true")
	}
	// InitFunc error edge
	found := false
	for _, b := range initFn.Blocks {
		for _, in := range b.Instrs {
			call, ok := in.(*ssa.Call)
			if !ok || call.Call.StaticCallee() != nil || call.Call.IsInvoke() {
				continue
			}
			fa, ok := loadAddr(call.Call.Value).(*ssa.FieldAddr)
			if !ok || fieldNameOf(fa) != "InitFunc" {
				continue
			}
			found = true
			for _, e := range an.CondEdges(initFn) {
				if empty, k := an.EmptinessFact(e.Fact, func(v ssa.Value) bool {
					cc := an.AllExtractOf(v, 2)
					return cc != nil && cc == ssa.CallInstruction(call)
				}); !k || empty {
					continue
				}
				bad := ""
				for blk := range an.Reach(e.To, nil) {
					for _, x := range blk.Instrs {
						if r, isRet := x.(*ssa.Return); isRet {
							if cv, isC := r.Results[0].(*ssa.Const); !isC || constant.BoolVal(cv.Value) {
								bad = "InitFunc's error edge reaches a return that may be true at " + c.ipos(r)
							}
						}
						if wc, isCall := x.(ssa.CallInstruction); isCall && an.CalleeOf(wc).FullName() == "(*"+pkgTransport+"."+wsConn+").write" {
							if t, ok := msgLitType(wc.Common().Args[1]); ok && t == ackT {
								bad = "a connection_ack is written on InitFunc's error edge at " + c.ipos(x)
							}
						}
					}
				}
				c.R.Check(bad == "", "init/InitFunc-error-edge", c.ipos(e.If), "rejected handshake returns false without an ack", bad)
			}
		}
	}
	if !found {
		c.R.Fail("unresolved anchor: init does not call the InitFunc field")
	}
}

func isMessageTypeLoad(v ssa.Value) bool {
	fa, ok := loadAddr(v).(*ssa.FieldAddr)
	if ok && fieldNameOf(fa) == "t" {
		return true
	}
	if f, ok := an.Strip(v).(*ssa.Field); ok {
		return fieldName2(f) == "t"
	}
	return false
}

func fieldName2(f *ssa.Field) string {
	st, ok := f.X.Type().Underlying().(*types.Struct)
	if !ok {
		return ""
	}
	return st.Field(f.Field).Name()
}

func c11WriteLock(c *Ctx) {
	c.R.Rule("write-lock", "in wsConnection methods every frame write (messageExchanger.Send, Conn.WriteMessage/WriteJSON/WriteControl) and every access to the fields active, closed, receivedPong executes with wsConnection.mu held", 8)
	nw := 0
	for _, fn := range c.wsMethods() {
		var ls map[ssa.Instruction]map[string]bool
		lsOf := func(in ssa.Instruction) map[string]bool {
			if ls == nil {
				ls = an.Locksets(fn)
			}
			return ls[in]
		}
		// the connection value in this function: receiver parameter, or captured receiver
		for _, b := range fn.Blocks {
			for _, in := range b.Instrs {
				call, ok := in.(ssa.CallInstruction)
				if !ok {
					continue
				}
				n := an.CalleeOf(call).FullName()
				isWrite := n == "("+pkgTransport+".messageExchanger).Send" || strings.HasPrefix(n, "(*github.com/gorilla/websocket.Conn).Write")
				if !isWrite {
					continue
				}
				nw++
				// receiver expression is c.me / c.conn : base is the connection
				var recv ssa.Value
				if call.Common().IsInvoke() {
					recv = call.Common().Value
				} else {
					recv = call.Common().Args[0]
				}
				base := ""
				var obj ssa.Value
				if a := loadAddr(recv); a != nil {
					base, _ = an.BasePath(a)
					if fa, ok := a.(*ssa.FieldAddr); ok {
						obj = fa.X
					}
				}
				held := base != "" && an.HeldFor(lsOf(in), base, "mu") || an.HeldViaWrapper(fn, obj, "mu")
				c.R.Check(held, shortFn(topFn(fn))+"/frame-write", c.ipos(in), "mu held", "a websocket frame is written without holding mu: concurrent writers (keep-alive, responses, close) interleave on the connection, which gorilla/websocket forbids")
			}
		}
	}
	if nw < 2 {
		c.R.Fail("write-lock found only %d frame-write sites", nw)
	}
	table := []guardedField{{pkgTransport, wsConn, "active", "mu"}, {pkgTransport, wsConn, "closed", "mu"}, {pkgTransport, wsConn, "receivedPong", "mu"}}
	c.checkGuardedBy(c.wsMethods(), table, "")
}

func c11CloseOnce(c *Ctx) {
	c.R.Rule("close-once", "in wsConnection.close: the close frame, the invocation of every active cancel func, Conn.Close and CloseFunc are edge-dominated by closed == false; closed is set to true while the lock taken before its test is still held; on the already-closed edge nothing is written", 5)
	fn := c.fn(pkgTransport, "*"+wsConn+".close")
	if fn == nil {
		return
	}
	ls := an.Locksets(fn)
	notClosed := func(in ssa.Instruction) bool {
		for _, f := range an.Facts(in) {
			if f.Op == token.ILLEGAL && f.Neg {
				if fa, ok := loadAddr(f.X).(*ssa.FieldAddr); ok && fieldNameOf(fa) == "closed" {
					return true
				}
			}
		}
		return false
	}
	kinds := map[string]int{}
	for _, b := range fn.Blocks {
		for _, in := range b.Instrs {
			switch x := in.(type) {
			case ssa.CallInstruction:
				n := an.CalleeOf(x).FullName()
				kind := ""
				switch {
				case strings.HasPrefix(n, "(*github.com/gorilla/websocket.Conn).Write"):
					kind = "close-frame"
				case n == "(*github.com/gorilla/websocket.Conn).Close":
					kind = "conn-close"
				case n == "":
					// dynamic call: CloseFunc field or a cancel func from the active map
					if fa, ok := loadAddr(x.Common().Value).(*ssa.FieldAddr); ok && fieldNameOf(fa) == "CloseFunc" {
						kind = "close-callback"
					} else if _, isNext := an.Strip(x.Common().Value).(*ssa.Extract); isNext {
						kind = "cancel-active"
					}
				}
				if kind == "" {
					continue
				}
				kinds[kind]++
				c.R.Check(notClosed(in), "close/"+kind, c.ipos(in), "only on the !closed edge", kind+" can run again on an already closed connection (close callback / frames must happen once)")
				if kind == "close-frame" || kind == "cancel-active" {
					base := "c"
					c.R.Check(an.HeldFor(ls[in], base, "mu"), "close/"+kind+"/locked", c.ipos(in), "mu held", kind+" runs without mu")
				}
			case *ssa.Store:
				fa, ok := x.Addr.(*ssa.FieldAddr)
				if !ok || fieldNameOf(fa) != "closed" {
					continue
				}
				kinds["set-closed"]++
				// no Unlock between the test and the store
				bad := ""
				for _, b2 := range fn.Blocks {
					for _, in2 := range b2.Instrs {
						if _, _, unlock, deferred := an.LockOp(in2); unlock && !deferred {
							for _, e := range an.CondEdges(fn) {
								if fa2, ok := loadAddr(e.Fact.X).(*ssa.FieldAddr); ok && fieldNameOf(fa2) == "closed" && e.Fact.Neg {
									if an.CanReach(e.If, in2) && an.CanReach(in2, x) {
										bad = "mu is released at " + c.ipos(in2) + " between the closed test and closed = true: two closers can both pass the test"
									}
								}
							}
						}
					}
				}
				c.R.Check(bad == "" && an.HeldFor(ls[in], "c", "mu") && notClosed(in), "close/set-closed", c.ipos(in), "set under the lock that covers the test", bad)
			}
		}
	}
	for _, k := range []string{"close-frame", "cancel-active", "conn-close", "close-callback", "set-closed"} {
		if kinds[k] == 0 {
			c.R.Bad("close/"+k, c.pos(fn.Pos()), "close() no longer performs "+k)
		}
	}
}

func c11TerminalFrame(c *Ctx) {
	c.R.Rule("terminal-frame", "the operation goroutine of subscribe registers, before DispatchOperation, a deferred epilogue that sends complete XOR the subscription error (two branches of one test that dominates the epilogue's exit), removes the id from active and cancels; the goroutine body itself sends no complete/error; early-error paths of subscribe send a terminal frame and return before the goroutine is started", 4)
	sub := c.fn(pkgTransport, "*"+wsConn+".subscribe")
	if sub == nil {
		return
	}
	var goFn *ssa.Function
	var goInstr *ssa.Go
	for _, b := range sub.Blocks {
		for _, in := range b.Instrs {
			if g, ok := in.(*ssa.Go); ok {
				if mc, ok := g.Call.Value.(*ssa.MakeClosure); ok {
					goFn, goInstr = mc.Fn.(*ssa.Function), g
				} else if sc := g.Call.StaticCallee(); sc != nil && len(sc.Blocks) > 0 {
					goFn, goInstr = sc, g // `go c.runOperation(...)`
				}
			}
		}
	}
	if goFn == nil {
		c.R.Fail("unresolved anchor: subscribe starts no goroutine closure")
		return
	}
	isTerm := func(ci ssa.CallInstruction) string {
		switch an.CalleeOf(ci).FullName() {
		case "(*" + pkgTransport + "." + wsConn + ").complete":
			return "complete"
		case "(*" + pkgTransport + "." + wsConn + ").sendError":
			return "error"
		}
		return ""
	}
	// deferred epilogue
	var epi *ssa.Function
	var deferIn *ssa.Defer
	for _, b := range goFn.Blocks {
		for _, in := range b.Instrs {
			if d, ok := in.(*ssa.Defer); ok {
				if mc, ok := d.Call.Value.(*ssa.MakeClosure); ok {
					epi, deferIn = mc.Fn.(*ssa.Function), d
				} else if sc := d.Call.StaticCallee(); sc != nil && len(sc.Blocks) > 0 && sc.Pkg != nil && sc.Pkg.Pkg.Path() == pkgTransport {
					epi, deferIn = sc, d // `defer c.finishOperation(...)`
				}
			}
		}
	}
	var dispatch ssa.CallInstruction
	for _, call := range an.CallsIn(goFn, func(_ ssa.CallInstruction, ci an.CalleeInfo) bool { return ci.FullName() == mDispatchOp }) {
		dispatch = call
	}
	if epi == nil || dispatch == nil {
		c.R.Bad("subscribe$go/epilogue", c.pos(goFn.Pos()), "the operation goroutine has no deferred epilogue closure or no dispatch")
		return
	}
	c.R.Check(an.Before(deferIn, dispatch), "subscribe$go/epilogue-registered-first", c.ipos(deferIn), "defer precedes DispatchOperation", "the epilogue is registered after DispatchOperation: a panic in dispatch leaves the operation without a terminal frame and never removes it from active")
	// body sends no terminal frames
	bodyTerm := 0
	for _, call := range an.CallsIn(goFn, func(ci ssa.CallInstruction, _ an.CalleeInfo) bool { return isTerm(ci) != "" }) {
		bodyTerm++
		c.R.Bad("subscribe$go/body-terminal", c.ipos(call), "the goroutine body sends a terminal frame itself: the deferred epilogue will send a second one for the same id")
	}
	// epilogue: XOR structure
	var comp, errs []ssa.CallInstruction
	for _, call := range an.CallsIn(epi, func(ci ssa.CallInstruction, _ an.CalleeInfo) bool { return isTerm(ci) != "" }) {
		// the sendError inside the `r != nil` recover branch reports the panic; it is followed by the normal terminal
		inRecover := false
		for _, f := range an.Facts(call) {
			if empty, ok := an.EmptinessFact(f, func(v ssa.Value) bool {
				cc, isCall := an.Strip(v).(*ssa.Call)
				if !isCall {
					return false
				}
				b, isB := cc.Call.Value.(*ssa.Builtin)
				return isB && b.Name() == "recover"
			}); ok && !empty {
				inRecover = true
			}
		}
		if inRecover {
			continue
		}
		if isTerm(call) == "complete" {
			comp = append(comp, call)
		} else {
			errs = append(errs, call)
		}
	}
	bad := ""
	if len(comp) != 1 || len(errs) != 1 {
		bad = sprintf("expected one complete and one subscription-error send outside the recover branch, found %d and %d", len(comp), len(errs))
	} else {
		cI, eI := comp[0].(ssa.Instruction), errs[0].(ssa.Instruction)
		if an.CanReach(cI, eI) || an.CanReach(eI, cI) {
			bad = "complete and error can both be sent for one operation"
		}
		// both are the two arms of one If that dominates every return of the epilogue
		gc, ge := an.BlockGuards(cI.Block()), an.BlockGuards(eI.Block())
		same := len(gc) > 0 && len(ge) > 0 && gc[0].If == ge[0].If && gc[0].Branch != ge[0].Branch
		if !same {
			bad = "complete and error are not the two arms of one test: some exit sends neither or both"
		} else {
			for _, r := range an.Returns(epi) {
				if !gc[0].If.Block().Dominates(r.Block()) {
					bad = "the epilogue can return without reaching the complete/error test"
				}
			}
		}
	}
	c.R.Check(bad == "", "subscribe$go/epilogue-xor", c.pos(epi.Pos()), "exactly one of complete / error on every exit", bad)
	// epilogue removes the id and cancels
	del, cancel := false, false
	for _, scope := range an.InlineScope(epi) {
		for _, b := range scope.Blocks {
			for _, in := range b.Instrs {
				if call, ok := in.(*ssa.Call); ok {
					if bi, ok := call.Call.Value.(*ssa.Builtin); ok && bi.Name() == "delete" {
						del = true
					}
					if call.Call.StaticCallee() == nil && !call.Call.IsInvoke() {
						if _, isB := call.Call.Value.(*ssa.Builtin); !isB && strings.HasSuffix(call.Call.Value.Type().String(), "context.CancelFunc") {
							cancel = true
						}
					}
				}
			}
		}
	}
	c.R.Check(del && cancel, "subscribe$go/epilogue-cleanup", c.pos(epi.Pos()), "delete(active,id) and cancel()", sprintf("the epilogue does not clean up (delete from active: %v, cancel: %v): stopped operations stay registered / keep their context", del, cancel))
	// early-error paths in subscribe itself
	n := 0
	for _, call := range an.CallsIn(sub, func(ci ssa.CallInstruction, _ an.CalleeInfo) bool { return isTerm(ci) == "complete" }) {
		n++
		c.R.Check(!an.CanReach(call, goInstr), "subscribe/early-error-returns", c.ipos(call), "terminal frame then return", "after completing the id on an early error subscribe can still start the operation goroutine")
	}
	_ = bodyTerm
	if n == 0 {
		c.R.Note("subscribe/early-error-returns", c.pos(sub.Pos()), "no early complete found")
	}
	// every exit of subscribe has either started the operation goroutine or completed the id (directly or through a helper
	// of the package that completes on all its paths)
	completes := func(in ssa.Instruction) bool {
		if in == ssa.Instruction(goInstr) {
			return true
		}
		ci, ok := in.(ssa.CallInstruction)
		if !ok {
			return false
		}
		if isTerm(ci) == "complete" {
			return true
		}
		if sc := ci.Common().StaticCallee(); sc != nil && sc.Pkg != nil && sc.Pkg.Pkg.Path() == pkgTransport && len(sc.Blocks) > 0 && sc != sub {
			all := len(an.Returns(sc)) > 0
			for _, r := range an.Returns(sc) {
				if !mustPassThrough(sc, r, func(x ssa.Instruction) bool {
					c2, ok := x.(ssa.CallInstruction)
					return ok && isTerm(c2) == "complete"
				}) {
					all = false
				}
			}
			return all
		}
		return false
	}
	for i, r := range an.Returns(sub) {
		c.R.Check(mustPassThrough(sub, r, completes), sprintf("subscribe/exit-terminated#%d", i+1), c.ipos(r), "the id is completed or its goroutine started",
			"subscribe can return without completing the id and without starting its goroutine: an operation refused with a user-kind error (complexity limit, …) gets a data frame with the error and is never terminated")
	}
}

func c11ExitCloses(c *Ctx) {
	c.R.Rule("exit-closes", "every `return false` of init is preceded on all paths by wsConnection.close; run registers a deferred cancel of the context that closeOnCancel waits on before its read loop, and closeOnCancel always reaches close", 6)
	closeName := "(*" + pkgTransport + "." + wsConn + ").close"
	if initFn := c.fn(pkgTransport, "*"+wsConn+".init"); initFn != nil {
		i := 0
		for _, r := range an.Returns(initFn) {
			isFalse := true
			for _, d := range an.Defs(r.Results[0]) {
				if cv, ok := d.(*ssa.Const); !ok || cv.Value == nil || constant.BoolVal(cv.Value) {
					isFalse = false
				}
			}
			if !isFalse {
				continue
			}
			i++
			// must-pass-through: every path entry -> r passes a close call
			ok := mustPassThrough(initFn, r, func(in ssa.Instruction) bool {
				ci, isCall := in.(ssa.CallInstruction)
				return isCall && an.CalleeOf(ci).FullName() == closeName
			})
			c.R.Check(ok, sprintf("init/return-false@%s", c.returnContext(r)), c.ipos(r), "close() on every path to this return", "init gives up on the handshake without closing the connection: the socket stays open, no close frame is sent and CloseFunc never fires")
		}
		if i == 0 {
			c.R.Fail("unresolved anchor: init has no `return false`")
		}
	}
	run := c.fn(pkgTransport, "*"+wsConn+".run")
	coc := c.fn(pkgTransport, "*"+wsConn+".closeOnCancel")
	if run == nil || coc == nil {
		return
	}
	// run: ctx, cancel := context.WithCancel(...); defer cancel (directly or in closure); go c.closeOnCancel(ctx)
	var wc *ssa.Call
	for _, call := range an.CallsIn(run, func(_ ssa.CallInstruction, ci an.CalleeInfo) bool { return ci.FullName() == "context.WithCancel" }) {
		wc, _ = call.(*ssa.Call)
	}
	okDefer, okGo := false, false
	var firstLoopRead ssa.Instruction
	for _, call := range an.CallsIn(run, func(_ ssa.CallInstruction, ci an.CalleeInfo) bool {
		return ci.FullName() == "("+pkgTransport+".messageExchanger).NextMessage"
	}) {
		firstLoopRead = call
	}
	if wc != nil && firstLoopRead != nil {
		for _, b := range run.Blocks {
			for _, in := range b.Instrs {
				switch x := in.(type) {
				case *ssa.Defer:
					// defer cancel() or defer func(){ cancel() }()
					if cc := an.AllExtractOf(x.Call.Value, 1); cc != nil && cc == ssa.CallInstruction(wc) && an.Before(x, firstLoopRead) {
						okDefer = true
					}
					if mc, ok := x.Call.Value.(*ssa.MakeClosure); ok && an.Before(x, firstLoopRead) {
						for _, b2 := range mc.Fn.(*ssa.Function).Blocks {
							for _, in2 := range b2.Instrs {
								if c2, ok := in2.(*ssa.Call); ok && c2.Call.StaticCallee() == nil {
									if cc := an.AllExtractOf(c2.Call.Value, 1); cc != nil && cc == ssa.CallInstruction(wc) {
										okDefer = true
									}
								}
							}
						}
					}
				case *ssa.Go:
					if an.CalleeOf(x).FullName() == "(*"+pkgTransport+"."+wsConn+").closeOnCancel" && an.Before(x, firstLoopRead) {
						if cc := an.AllExtractOf(x.Call.Args[len(x.Call.Args)-1], 0); cc != nil && cc == ssa.CallInstruction(wc) {
							okGo = true
						}
					}
				}
			}
		}
	}
	c.R.Check(okDefer, "run/deferred-cancel", c.pos(run.Pos()), "cancel of the run context is deferred before the read loop", "run no longer defers the cancellation of its context: leaving the read loop (client gone, protocol error) does not trigger close, so the connection, its operations and keep-alive goroutines stay alive")
	c.R.Check(okGo, "run/closeOnCancel-started", c.pos(run.Pos()), "closeOnCancel(ctx) is started on that context before the read loop", "closeOnCancel is not started (or on a different context): cancellation no longer closes the connection")
	// closeOnCancel: after the receive from Done, every path reaches close
	for _, r := range an.Returns(coc) {
		ok := mustPassThrough(coc, r, func(in ssa.Instruction) bool {
			ci, isCall := in.(ssa.CallInstruction)
			return isCall && an.CalleeOf(ci).FullName() == closeName
		})
		c.R.Check(ok, "closeOnCancel/reaches-close", c.ipos(r), "close() on every path", "closeOnCancel can return without closing the connection")
	}
}

// returnContext names a return by the nearest distinguishing guard (for stable keys).
func (c *Ctx) returnContext(r *ssa.Return) string {
	gs := an.BlockGuards(r.Block())
	if len(gs) == 0 {
		return "entry"
	}
	f := an.FactOf(gs[0])
	desc := func(v ssa.Value) string {
		if v == nil {
			return ""
		}
		if s, ok := an.ConstString(v); ok {
			return s
		}
		if n, ok := an.ConstInt(v); ok {
			return sprintf("%d", n)
		}
		if an.IsNilConst(v) {
			return "nil"
		}
		if a := loadAddr(v); a != nil {
			if fa, ok := a.(*ssa.FieldAddr); ok {
				return fieldNameOf(fa)
			}
			if al, ok := an.RootAlloc(a).(*ssa.Alloc); ok {
				return al.Comment
			}
		}
		if g, ok := v.(*ssa.Global); ok {
			return g.Name()
		}
		if u, ok := v.(*ssa.UnOp); ok {
			if g, ok := u.X.(*ssa.Global); ok {
				return g.Name()
			}
		}
		if cc, ok := v.(*ssa.Call); ok {
			n := an.CalleeOf(cc).FullName()
			if i := strings.LastIndex(n, "."); i >= 0 {
				n = n[i+1:]
			}
			return n + "()"
		}
		if e, ok := v.(*ssa.Extract); ok {
			if cc, ok := e.Tuple.(*ssa.Call); ok {
				n := an.CalleeOf(cc).FullName()
				if i := strings.LastIndex(n, "."); i >= 0 {
					n = n[i+1:]
				}
				return n + "()#" + sprintf("%d", e.Index)
			}
		}
		return "v"
	}
	op := f.Op.String()
	if f.Op == token.ILLEGAL {
		if f.Neg {
			return "!" + desc(f.X)
		}
		return desc(f.X)
	}
	return desc(f.X) + op + desc(f.Y)
}

// mustPassThrough: every path from the function entry to target executes an instruction satisfying pred.
func mustPassThrough(fn *ssa.Function, target ssa.Instruction, pred func(ssa.Instruction) bool) bool {
	// search backwards from target for a path to entry that avoids pred
	type pos struct {
		b *ssa.BasicBlock
	}
	seen := map[*ssa.BasicBlock]bool{}
	var back func(b *ssa.BasicBlock, upto int) bool // returns true if an avoiding path to entry exists
	back = func(b *ssa.BasicBlock, upto int) bool {
		for i := upto - 1; i >= 0; i-- {
			if pred(b.Instrs[i]) {
				return false
			}
		}
		if b == fn.Blocks[0] {
			return true
		}
		if seen[b] && upto == len(b.Instrs) {
			return false
		}
		if upto == len(b.Instrs) {
			seen[b] = true
		}
		for _, p := range b.Preds {
			if an.Infeasible[an.Edge{From: p, To: b}] {
				continue
			}
			if back(p, len(p.Instrs)) {
				return true
			}
		}
		return false
	}
	return !back(target.Block(), an.InstrIndex(target))
}

func c11Tables(c *Ctx) {
	c.R.Rule("tables", "every messageType the server constructs (message{t: X} literals) has a non-default case in both subprotocols' fromMessage; every type init/run dispatch on is produced by at least one toMessage; every subprotocol message-type constant is listed in its all…MessageTypes table", 20)
	// server-constructed types
	constructed := map[int64]string{}
	for _, fn := range c.wsMethods() {
		for _, b := range fn.Blocks {
			for _, in := range b.Instrs {
				call, ok := in.(ssa.CallInstruction)
				if !ok || an.CalleeOf(call).FullName() != "(*"+pkgTransport+"."+wsConn+").write" {
					continue
				}
				if t, ok := msgLitType(call.Common().Args[1]); ok {
					constructed[t] = c.ipos(in)
				}
			}
		}
	}
	// message types handed on through an intermediate value (`envelope{t: dataMessageType, …}`): every constant stored into a
	// field of type messageType by the connection's methods is a type the server sends
	for _, fn := range c.wsMethods() {
		for _, b := range fn.Blocks {
			for _, in := range b.Instrs {
				st, ok := in.(*ssa.Store)
				if !ok {
					continue
				}
				fa, ok := st.Addr.(*ssa.FieldAddr)
				if !ok || !an.NamedIs(st.Val.Type(), pkgTransport, "messageType") {
					continue
				}
				_ = fa
				if n, ok := an.ConstInt(st.Val); ok {
					if _, dup := constructed[n]; !dup {
						constructed[n] = c.ipos(in)
					}
				}
			}
		}
	}
	typeName := map[int64]string{}
	if tp := c.W.TPkg(pkgTransport); tp != nil {
		for _, n := range tp.Types.Scope().Names() {
			if cn, ok := tp.Types.Scope().Lookup(n).(*types.Const); ok && an.NamedIs(cn.Type(), pkgTransport, "messageType") {
				if v, ok := constant.Int64Val(cn.Val()); ok {
					typeName[v] = n
				}
			}
		}
	}
	var from []*ssa.Function
	var to []*ssa.Function
	for _, fn := range transportFuncs(c) {
		if fn.Parent() != nil {
			continue
		}
		switch fn.Name() {
		case "fromMessage":
			from = append(from, fn)
		case "toMessage":
			to = append(to, fn)
		}
	}
	if len(from) != 2 || len(to) != 2 {
		c.R.Fail("unresolved anchor: expected two fromMessage and two toMessage implementations, found %d and %d", len(from), len(to))
		return
	}
	var cts []int64
	for t := range constructed {
		cts = append(cts, t)
	}
	sort.Slice(cts, func(i, j int) bool { return cts[i] < cts[j] })
	for _, f := range from {
		cases := intCases(f, isMessageTypeLoad)
		if len(cases) == 0 {
			// table form: `wire, known := outgoing[msg.t]` over a package-level map literal
			for _, kv := range c.lookupTables(f) {
				if k, ok := constant.Int64Val(kv[0]); ok && kv[0].Kind() == constant.Int {
					cases[k] = true
				}
			}
		}
		for _, t := range cts {
			c.R.Check(cases[t], shortFn(f)+"/case:"+typeName[t], constructed[t], "handled", "the server sends "+typeName[t]+" but "+shortFn(f)+" has no case for it: the frame is turned into an 'invalid message type' error and dropped")
		}
	}
	// the wire type chosen in fromMessage is different for different internal types
	for _, f := range from {
		wire := map[string][]ssa.Instruction{}
		for _, b := range f.Blocks {
			for _, in := range b.Instrs {
				st, ok := in.(*ssa.Store)
				if !ok {
					continue
				}
				fa, ok := st.Addr.(*ssa.FieldAddr)
				if !ok || fieldNameOf(fa) != "Type" {
					continue
				}
				if s, ok := an.ConstString(st.Val); ok {
					wire[s] = append(wire[s], in)
				}
			}
		}
		if len(wire) == 0 {
			for _, kv := range c.lookupTables(f) {
				if kv[1].Kind() == constant.String && constant.StringVal(kv[1]) != "" {
					w := constant.StringVal(kv[1])
					wire[w] = append(wire[w], f.Blocks[0].Instrs[0])
				}
			}
		}
		var ws []string
		for w := range wire {
			ws = append(ws, w)
		}
		sort.Strings(ws)
		for _, w := range ws {
			c.R.Check(len(wire[w]) == 1, shortFn(f)+"/wire:"+w, c.ipos(wire[w][len(wire[w])-1]), "chosen for one internal type only",
				sprintf("the wire type %q is chosen for %d different internal message types: the client cannot tell them apart (an error frame sent as `next`/`data` does not terminate the operation on the client)", w, len(wire[w])))
		}
		if len(ws) < 5 {
			c.R.Fail("tables: %s assigns only %d wire types", shortFn(f), len(ws))
		}
	}
	// produced by a toMessage
	produced := map[int64]bool{}
	for _, f := range to {
		for _, b := range f.Blocks {
			for _, in := range b.Instrs {
				// t = X  (phi edges or stores of constants of type messageType)
				for _, op := range in.Operands(nil) {
					if cv, ok := (*op).(*ssa.Const); ok && an.NamedIs(cv.Type(), pkgTransport, "messageType") {
						if n, ok := an.ConstInt(cv); ok {
							produced[n] = true
						}
					}
				}
			}
		}
	}
	for _, f := range to {
		for _, kv := range c.lookupTables(f) {
			if kv[1].Kind() == constant.Int {
				if k, ok := constant.Int64Val(kv[1]); ok {
					produced[k] = true
				}
			}
		}
	}
	for _, name := range []string{"init", "run"} {
		fn := c.fn(pkgTransport, "*"+wsConn+"."+name)
		if fn == nil {
			continue
		}
		cases := intCases(fn, isMessageTypeLoad)
		var ks []int64
		for k := range cases {
			ks = append(ks, k)
		}
		sort.Slice(ks, func(i, j int) bool { return ks[i] < ks[j] })
		for _, k := range ks {
			c.R.Check(produced[k], name+"/dispatches:"+typeName[k], c.pos(fn.Pos()), "produced by a toMessage", name+" has a case for "+typeName[k]+" that no subprotocol's toMessage can produce (dead protocol branch or missing translation)")
		}
	}
	// all…MessageTypes tables
	tp := c.W.TPkg(pkgTransport)
	for _, proto := range []string{"graphqlwsMessageType", "graphqltransportwsMessageType"} {
		consts := map[string]bool{}
		for _, n := range tp.Types.Scope().Names() {
			if cn, ok := tp.Types.Scope().Lookup(n).(*types.Const); ok && an.NamedIs(cn.Type(), pkgTransport, proto) {
				consts[n] = true
			}
		}
		listed := map[string]bool{}
		for _, f := range tp.Syntax {
			ast.Inspect(f, func(n ast.Node) bool {
				vs, ok := n.(*ast.ValueSpec)
				if !ok || len(vs.Values) != 1 {
					return true
				}
				cl, ok := vs.Values[0].(*ast.CompositeLit)
				if !ok {
					return true
				}
				tv := tp.TypesInfo.Types[cl]
				sl, ok := tv.Type.(*types.Slice)
				if !ok || !an.NamedIs(sl.Elem(), pkgTransport, proto) {
					return true
				}
				for _, e := range cl.Elts {
					if id, ok := e.(*ast.Ident); ok {
						listed[id.Name] = true
					}
				}
				return true
			})
		}
		var names []string
		for n := range consts {
			names = append(names, n)
		}
		sort.Strings(names)
		for _, n := range names {
			c.R.Check(listed[n], proto+"/listed:"+n, "-", "in the all-types table", "message type "+n+" is missing from the table UnmarshalText accepts: frames of that type are rejected as invalid json")
		}
	}
}

// intCases: integer constants a function compares `subject` with for equality.
func intCases(fn *ssa.Function, isSubject func(ssa.Value) bool) map[int64]bool {
	out := map[int64]bool{}
	for _, e := range an.CondEdges(fn) {
		if e.Fact.Op != token.EQL {
			continue
		}
		for _, pr := range [][2]ssa.Value{{e.Fact.X, e.Fact.Y}, {e.Fact.Y, e.Fact.X}} {
			if n, ok := an.ConstInt(pr[1]); ok && isSubject(pr[0]) {
				out[n] = true
			}
		}
	}
	return out
}

// c11PerOperationMessage: every operation of a connection keeps, for its whole life, the *message that started it (its id is
// used for every data/error/complete frame and for the clean-up of `active`).  A function of the connection that retains a
// pointer parameter in a goroutine must therefore be handed a variable that is fresh for that call: when the call sits in a loop,
// the pointed-to variable is declared inside that loop iteration, or at least never assigned again inside the loop.
func c11PerOperationMessage(c *Ctx) {
	c.R.Rule("per-operation-message", "a pointer argument that a wsConnection method keeps in a goroutine it starts (subscribe keeps the start message) does not point to a variable that is re-assigned by later iterations of the loop containing the call", 0)
	n := 0
	for _, fn := range c.wsMethods() {
		loops := an.Loops(fn)
		if len(loops) == 0 {
			continue
		}
		for _, b := range fn.Blocks {
			for _, in := range b.Instrs {
				call, ok := in.(*ssa.Call)
				if !ok {
					continue
				}
				callee := call.Call.StaticCallee()
				if callee == nil || callee.Pkg == nil || callee.Pkg.Pkg.Path() != pkgTransport || len(callee.Blocks) == 0 {
					continue
				}
				for i, a := range call.Call.Args {
					if i >= len(callee.Params) {
						continue
					}
					if _, isPtr := a.Type().Underlying().(*types.Pointer); !isPtr {
						continue
					}
					if !keptByGoroutine(callee, callee.Params[i]) {
						continue
					}
					root, isAlloc := an.RootAlloc(a).(*ssa.Alloc)
					if !isAlloc {
						continue
					}
					// innermost loop containing the call
					var loop *an.Loop
					for _, l := range loops {
						if l.Blocks[b] && (loop == nil || len(l.Blocks) < len(loop.Blocks)) {
							loop = l
						}
					}
					if loop == nil {
						continue
					}
					n++
					key := shortFn(topFn(fn)) + "→" + callee.Name() + "/arg:" + root.Name()
					if loop.Blocks[root.Block()] {
						c.R.OK(key, c.ipos(call), "the variable is declared inside the loop: one per iteration")
						continue
					}
					bad := ""
					for _, st := range an.CellStores(root) {
						if loop.Blocks[st.Block()] {
							bad = "the variable is declared outside the read loop and assigned again at " + c.ipos(st) + ": every operation started on this connection shares it, so a later frame changes the id under which running operations send their results, complete and clean up"
						}
					}
					c.R.Check(bad == "", key, c.ipos(call), "not re-assigned inside the loop", bad)
				}
			}
		}
	}
	if n == 0 {
		c.R.Note("per-operation-message", "graphql/handler/transport/websocket.go", "no call in a loop hands a pointer to a method that keeps it in a goroutine (operations copy what they need); nothing to judge")
	}
}

// keptByGoroutine: parameter p of fn is captured by a function literal that fn starts with `go` (directly or through defer in it).
func keptByGoroutine(fn *ssa.Function, p *ssa.Parameter) bool {
	for _, gs := range an.GoSites(fn) {
		mc, ok := gs.Go.Call.Value.(*ssa.MakeClosure)
		if !ok {
			for _, a := range gs.Go.Call.Args {
				if an.SameVar(a, p) {
					return true
				}
			}
			continue
		}
		for _, bnd := range mc.Bindings {
			if bnd == ssa.Value(p) || an.RootAlloc(bnd) == an.RootAlloc(p) {
				return true
			}
			// the parameter spilled to a cell that the closure captures
			if al, isAl := bnd.(*ssa.Alloc); isAl {
				for _, st := range an.CellStores(al) {
					if st.Val == ssa.Value(p) {
						return true
					}
				}
			}
		}
	}
	return false
}

// lookupTables: the (key, value) constant pairs of every package-level map literal that fn indexes (table form of a switch).
func (c *Ctx) lookupTables(fn *ssa.Function) [][2]constant.Value {
	var out [][2]constant.Value
	tp := c.W.TPkg(pkgTransport)
	if tp == nil {
		return nil
	}
	for _, b := range fn.Blocks {
		for _, in := range b.Instrs {
			lk, ok := in.(*ssa.Lookup)
			if !ok {
				continue
			}
			g, ok := loadGlobal(lk.X)
			if !ok {
				continue
			}
			for _, f := range tp.Syntax {
				ast.Inspect(f, func(n ast.Node) bool {
					vs, ok := n.(*ast.ValueSpec)
					if !ok || len(vs.Names) != 1 || vs.Names[0].Name != g.Name() || len(vs.Values) != 1 {
						return true
					}
					cl, ok := vs.Values[0].(*ast.CompositeLit)
					if !ok {
						return true
					}
					for _, e := range cl.Elts {
						kv, ok := e.(*ast.KeyValueExpr)
						if !ok {
							continue
						}
						k, v := tp.TypesInfo.Types[kv.Key].Value, tp.TypesInfo.Types[kv.Value].Value
						if inner, isLit := kv.Value.(*ast.CompositeLit); isLit && v == nil {
							// a struct-valued entry {wireType: X} / {noOp: true}: the string member is the value, "" when there is none
							v = constant.MakeString("")
							for _, ie := range inner.Elts {
								if ikv, ok := ie.(*ast.KeyValueExpr); ok {
									if iv := tp.TypesInfo.Types[ikv.Value].Value; iv != nil && iv.Kind() == constant.String {
										v = iv
									}
								}
							}
						}
						if k != nil && v != nil {
							out = append(out, [2]constant.Value{k, v})
						}
					}
					return true
				})
			}
		}
	}
	return out
}
