package rules

import (
	"go/constant"
	"go/token"
	"go/types"
	"strings"

	"golang.org/x/tools/go/ssa"

	"verif/internal/an"
)

// Structural necessary conditions of C13 (shared with C01/C04 where their clauses overlap) that came out of the small-slip round.

// valueWithVariables: every evaluation of a directive argument in package graphql ((*ast.Value).Value) is given variables — a
// value that comes from a parameter or from OperationContext.Variables, never the constant nil.  `@skip(if:$v)`,
// `@defer(if:$v, label:$l)` evaluated without variables silently take the zero value: fields are included/skipped or deferred
// groups labelled differently from what the request says.
func valueWithVariables(c *Ctx) {
	c.R.Rule("directive-args-with-variables", "every call of (*ast.Value).Value in package graphql passes a variables map that is a parameter, captured or loaded from the operation context — never the nil constant", 3)
	n := 0
	for _, fn := range c.moduleFuncs(func(p string) bool { return p == pkgGraphql }) {
		for _, call := range an.CallsIn(fn, func(_ ssa.CallInstruction, ci an.CalleeInfo) bool {
			return strings.HasSuffix(ci.FullName(), "gqlparser/v2/ast.Value).Value")
		}) {
			args := call.Common().Args
			if len(args) < 2 {
				continue
			}
			n++
			v := an.Strip(args[len(args)-1])
			c.R.Check(!an.IsNilConst(v), shortFn(topFn(fn))+"/Value@"+argNameNear(call), c.ipos(call), "evaluated with the request's variables",
				"this directive argument is evaluated with nil variables: an argument given through a variable ($v) evaluates to nothing, so the directive is applied differently from what the request says")
		}
	}
	if n < 3 {
		c.R.Fail("directive-args-with-variables: %d evaluations found", n)
	}
}

// argNameNear: a stable discriminator for several Value() calls in one function: the string constants compared in the
// dominating conditions ("if", "label"), else the ordinal.
func argNameNear(call ssa.CallInstruction) string {
	var names []string
	for _, f := range an.Facts(call) {
		for _, v := range []ssa.Value{f.X, f.Y} {
			if v == nil {
				continue
			}
			if s, ok := an.ConstString(v); ok {
				names = append(names, s)
			}
		}
	}
	if len(names) > 0 {
		return strings.Join(names, ",")
	}
	// ordinal among the Value calls of the function
	k := 0
	fn := call.Parent()
	for _, b := range fn.Blocks {
		for _, in := range b.Instrs {
			if ci, ok := in.(ssa.CallInstruction); ok && strings.HasSuffix(an.CalleeOf(ci).FullName(), "ast.Value).Value") {
				k++
				if in == call.(ssa.Instruction) {
					return sprintf("%d", k)
				}
			}
		}
	}
	return "?"
}

// fieldSetParallel: FieldSet.fields and FieldSet.Values are parallel slices (MarshalGQL writes Values[i] for fields[i]; the
// generated object function uses len(Values)-1 as the slot of a field it just added): every function of package graphql that
// grows .fields grows .Values too, and a constructor that sets .fields sizes .Values by it.
func fieldSetParallel(c *Ctx) {
	c.R.Rule("fieldset-parallel", "every function of package graphql that stores into FieldSet.fields also stores a slice of matching growth into FieldSet.Values (append with append, make(len(fields)) with assignment)", 2)
	n := 0
	for _, fn := range c.moduleFuncs(func(p string) bool { return p == pkgGraphql }) {
		kind := map[string]string{}
		var at ssa.Instruction
		for _, b := range fn.Blocks {
			for _, in := range b.Instrs {
				st, ok := in.(*ssa.Store)
				if !ok {
					continue
				}
				fa, ok := st.Addr.(*ssa.FieldAddr)
				if !ok || !an.NamedIs(fa.X.Type(), pkgGraphql, "FieldSet") {
					continue
				}
				name := fieldNameOf(fa)
				if name != "fields" && name != "Values" {
					continue
				}
				k := "assign"
				switch v := an.Strip(st.Val).(type) {
				case *ssa.Call:
					if b, ok := v.Call.Value.(*ssa.Builtin); ok && b.Name() == "append" {
						k = "append"
					}
				case *ssa.MakeSlice:
					k = "make"
				}
				kind[name] = k
				if name == "fields" {
					at = in
				}
			}
		}
		if kind["fields"] == "" {
			continue
		}
		n++
		ok := kind["fields"] == "append" && kind["Values"] == "append" || kind["fields"] == "assign" && kind["Values"] == "make"
		c.R.Check(ok, shortFn(fn), c.ipos(at), "fields and Values change together ("+kind["fields"]+"/"+kind["Values"]+")",
			"FieldSet.fields is changed here ("+kind["fields"]+") but FieldSet.Values is not changed the same way ("+map[bool]string{true: "not at all", false: kind["Values"]}[kind["Values"] == ""]+"): the slot of an added field does not exist (or belongs to another field), so a deferred group with two fields panics or delivers one field's value under the other's name")
	}
	if n < 2 {
		c.R.Fail("fieldset-parallel: %d functions writing FieldSet.fields", n)
	}
}

// funcFieldsSet: an unexported function-typed field of an unexported struct type that is called somewhere without a nil test
// is given a value by every composite literal of that type in the package.  (WithFreshResponseContext builds the response
// context a deferred group reports its errors into; dropping errorPresenter there makes the first error of any deferred
// group call a nil function, inside the recover handlers as well.)
func funcFieldsSet(c *Ctx, pkgs ...string) {
	c.R.Rule("func-fields-set", "unexported struct types of "+strings.Join(shortPkgs(pkgs), ", ")+": every function-typed field that is called without a nil test is stored by every composite literal of the type", 2)
	in := func(p string) bool {
		for _, q := range pkgs {
			if p == q {
				return true
			}
		}
		return false
	}
	type fkey struct {
		t   *types.Named
		idx int
	}
	called := map[fkey]ssa.Instruction{}
	fns := c.moduleFuncs(in)
	for _, fn := range fns {
		for _, b := range fn.Blocks {
			for _, i := range b.Instrs {
				call, ok := i.(ssa.CallInstruction)
				if !ok || call.Common().IsInvoke() || call.Common().StaticCallee() != nil {
					continue
				}
				v := call.Common().Value
				fa, ok := loadAddr(v).(*ssa.FieldAddr)
				if !ok {
					continue
				}
				nt := namedStruct(fa.X.Type())
				if nt == nil || nt.Obj().Exported() || nt.Obj().Pkg() == nil || !in(nt.Obj().Pkg().Path()) {
					continue
				}
				guarded := false
				for _, f := range an.Facts(i) {
					if empty, k := an.EmptinessFact(f, func(x ssa.Value) bool {
						if x == v {
							return true
						}
						fb, ok := loadAddr(x).(*ssa.FieldAddr)
						return ok && fb.Field == fa.Field && namedStruct(fb.X.Type()) == nt
					}); k && !empty {
						guarded = true
					}
				}
				if !guarded {
					called[fkey{nt, fa.Field}] = i
				}
			}
		}
	}
	n := 0
	for _, fn := range fns {
		for _, b := range fn.Blocks {
			for _, i := range b.Instrs {
				al, ok := i.(*ssa.Alloc)
				if !ok {
					continue
				}
				nt := namedStruct(al.Type())
				if nt == nil {
					continue
				}
				// composite literal: an Alloc whose referrers are FieldAddr stores (at least one)
				stored := map[int]bool{}
				lit := false
				for _, r := range an.Referrers(al) {
					if fa, ok := r.(*ssa.FieldAddr); ok {
						for _, r2 := range an.Referrers(fa) {
							if st, ok := r2.(*ssa.Store); ok && st.Addr == ssa.Value(fa) {
								lit = true
								if !an.IsNilConst(an.Strip(st.Val)) {
									stored[fa.Field] = true
								}
							}
						}
					}
				}
				if !lit {
					continue
				}
				for k, callAt := range called {
					if k.t != nt {
						continue
					}
					n++
					fname := nt.Underlying().(*types.Struct).Field(k.idx).Name()
					c.R.Check(stored[k.idx], shortFn(topFn(fn))+"/"+nt.Obj().Name()+"."+fname, c.ipos(al), "set by this literal",
						"this "+nt.Obj().Name()+" is built without its "+fname+" function, which "+c.ipos(callAt)+" calls without a nil test: the first use panics with a nil function call")
				}
			}
		}
	}
	if n < 2 {
		c.R.Fail("func-fields-set: %d (literal, field) pairs", n)
	}
}

func shortPkgs(pkgs []string) []string {
	var out []string
	for _, p := range pkgs {
		out = append(out, p[strings.LastIndex(p, "/")+1:])
	}
	return out
}

func namedStruct(t types.Type) *types.Named {
	if p, ok := t.Underlying().(*types.Pointer); ok {
		t = p.Elem()
	}
	nt, ok := t.(*types.Named)
	if !ok {
		return nil
	}
	if _, ok := nt.Underlying().(*types.Struct); !ok {
		return nil
	}
	return nt
}

// batchHasNextFromLast: when the multipart aggregator writes several incremental results in one part, the part's hasNext (and
// with it the choice between a separating and the closing boundary) is that of the newest result: the element of
// deferResponses whose HasNext is read is indexed len-1 (or the read happens in a loop over all of them).  The first element's
// hasNext is true whenever the batch also holds the final result, and the stream would never be closed.
func batchHasNextFromLast(c *Ctx) {
	c.R.Rule("batch-hasnext-from-last", "multipartResponseAggregator.flush: every read of HasNext on an element of deferResponses indexes the slice with len-1 or ranges over it", 1)
	fns := aggregatorMethods(c)
	if len(fns) == 0 {
		c.R.Fail("unresolved anchor: methods of transport.multipartResponseAggregator")
		return
	}
	n := 0
	for _, fn := range fns {
		for _, b := range fn.Blocks {
			for _, in := range b.Instrs {
				fa, ok := in.(*ssa.FieldAddr)
				if !ok || fieldNameOf(fa) != "HasNext" {
					continue
				}
				ia, ok := loadAddr(fa.X).(*ssa.IndexAddr)
				if !ok {
					continue
				}
				sl, ok := loadAddr(ia.X).(*ssa.FieldAddr)
				if !ok || fieldNameOf(sl) != "deferResponses" {
					continue
				}
				n++
				ok = false
				switch ix := an.Strip(ia.Index).(type) {
				case *ssa.BinOp:
					if k, isC := an.ConstInt(ix.Y); ix.Op == token.SUB && isC && k == 1 {
						if call, isCall := ix.X.(*ssa.Call); isCall {
							if bi, isB := call.Call.Value.(*ssa.Builtin); isB && bi.Name() == "len" {
								if sl2, ok2 := loadAddr(call.Call.Args[0]).(*ssa.FieldAddr); ok2 && fieldNameOf(sl2) == "deferResponses" {
									ok = true
								}
							}
						}
					}
				case *ssa.Phi, *ssa.Extract:
					ok = true // loop index
				case *ssa.Const:
					if ix.Value != nil && ix.Value.Kind() == constant.Int {
						ok = false
					}
				}
				c.R.Check(ok, "flush/HasNext-read", c.ipos(in), "hasNext of the batch is the newest result's",
					"the part's hasNext is taken from a fixed element of the batch, not from the newest result: a batch that contains the final result is written with hasNext:true and the closing boundary is never sent")
			}
		}
	}
	if n == 0 {
		c.R.Fail("batch-hasnext-from-last: flush reads no HasNext of deferResponses")
	}
}

// fieldSetAgreement: per materialised executor,
// (a) a closure registered with X.Concurrently(i, f) hands X — the field set it is registered on — to the function it calls
// with a *FieldSet argument (innerFunc): the value and the Invalids count of a field land in the set that is marshalled for
// it (the object's own set, or the deferred group's);
// (b) a function literal with a *FieldSet parameter (innerFunc) counts invalid non-null fields on that parameter only, not on
// a captured field set.
func fieldSetAgreement(c *Ctx) {
	c.R.Rule("fieldset-agreement", "per materialised executor: the closure handed to X.Concurrently passes X to the inner function; the inner function increments Invalids of its own *FieldSet parameter only", 20)
	n := 0
	for _, g := range c.Gen {
		for _, fn := range c.genFuncs(g) {
			// (b)
			if fn.Parent() != nil && isInnerFunc(fn) {
				for _, b := range fn.Blocks {
					for _, in := range b.Instrs {
						fa, ok := in.(*ssa.FieldAddr)
						if !ok || fieldNameOf(fa) != "Invalids" || !an.NamedIs(fa.X.Type(), pkgGraphql, "FieldSet") {
							continue
						}
						n++
						own := an.Strip(fa.X) == ssa.Value(fn.Params[1]) || an.SameVar(fa.X, fn.Params[1])
						c.R.Check(own, "gen:"+g.Name+"/"+topFn(fn).Name()+"/innerFunc-invalids", c.ipos(in), "counted on the field set handed in",
							"the inner function counts an invalid non-null field on a captured field set, not on the one it was handed: inside a deferred group the parent object is nulled (or the group is not), so the merged result differs from the plain one")
					}
				}
			}
			// (a)
			for _, call := range an.CallsIn(fn, func(_ ssa.CallInstruction, ci an.CalleeInfo) bool {
				return strings.HasSuffix(ci.FullName(), "graphql.FieldSet).Concurrently")
			}) {
				args := call.Common().Args
				if len(args) != 3 {
					continue
				}
				mc, ok := args[2].(*ssa.MakeClosure)
				if !ok {
					continue
				}
				recv := args[0]
				cl := mc.Fn.(*ssa.Function)
				for _, inner := range an.CallsIn(cl, func(ci ssa.CallInstruction, _ an.CalleeInfo) bool {
					as := ci.Common().Args
					return len(as) == 2 && an.NamedIs(as[1].Type(), pkgGraphql, "FieldSet") && ci.Common().StaticCallee() == nil
				}) {
					n++
					fsArg := inner.Common().Args[1]
					same := false
					// the argument inside the closure is a free variable (or a load of a captured cell); map it to its binding
					var fv *ssa.FreeVar
					if x, ok := an.Strip(fsArg).(*ssa.FreeVar); ok {
						fv = x
					} else if x, ok := loadAddr(an.Strip(fsArg)).(*ssa.FreeVar); ok {
						fv = x
					}
					if fv != nil {
						for i, f := range cl.FreeVars {
							if f == fv && i < len(mc.Bindings) {
								bnd := mc.Bindings[i]
								if bnd == recv || an.SameVar(bnd, recv) || loadAddr(an.Strip(recv)) == bnd {
									same = true
								}
							}
						}
					}
					c.R.Check(same, "gen:"+g.Name+"/"+topFn(fn).Name()+"/concurrently-own-set", c.ipos(call), "the closure works on the set it is registered on",
						"the closure registered on one field set hands a different field set to the inner function: the field's Invalids count (and null propagation) lands on the wrong object — a failing non-null deferred field is delivered as null inside a non-null position instead of nulling its group")
				}
			}
		}
	}
	c.R.SetFloor(n)
	if n < 20 {
		c.R.Fail("fieldset-agreement: %d sites", n)
	}
}

// c13GroupIsolated: the goroutine of a deferred group works on a fresh response context and delivers exactly that context's
// errors, once (the part of C13/accounting that C04's "a fault inside a deferred group fails only that group" relies on).
func c13GroupIsolated(c *Ctx) {
	c.R.Rule("deferred-group-isolated", "per materialised executor: the goroutine started by processDeferredGroup offers one result on every path, dispatches the group on WithFreshResponseContext(dg.Context) and delivers GetErrors of that context; Invalids of the group nulls only its result", 3*len(c.Gen))
	for _, g := range c.Gen {
		pdg := c.genFunc(g, "processDeferredGroup")
		if pdg == nil {
			c.R.Fail("gen:%s: processDeferredGroup not found", g.Name)
			continue
		}
		var body *ssa.Function
		for _, b := range pdg.Blocks {
			for _, in := range b.Instrs {
				if gi, ok := in.(*ssa.Go); ok {
					if mc, ok := gi.Call.Value.(*ssa.MakeClosure); ok {
						body = mc.Fn.(*ssa.Function)
					} else if sc := gi.Call.StaticCallee(); sc != nil && len(sc.Blocks) > 0 {
						body = sc
					}
				}
			}
		}
		if body == nil {
			c.R.Bad("gen:"+g.Name+"/processDeferredGroup$go/one-result", c.pos(pdg.Pos()), "goroutine body not found")
			continue
		}
		c.deferredBody("gen:"+g.Name+"/", body)
	}
}

// hasNextAbsentIsFalse: in multipartResponseAggregator.flush a payload without a HasNext member is a final payload: wherever
// `*X.HasNext` is merged with a constant (the short-circuit of `X.HasNext != nil && *X.HasNext`), the constant is false.
// (true would write the separating boundary after a plain, non-deferred response and the closing boundary would never be sent.)
func hasNextAbsentIsFalse(c *Ctx) {
	c.R.Rule("hasnext-absent-is-false", "multipartResponseAggregator.flush: every boolean merged (phi) with a load of *X.HasNext is the constant false — an absent hasNext means the payload is final", 2)
	fns := aggregatorMethods(c)
	if len(fns) == 0 {
		c.R.Fail("unresolved anchor: methods of transport.multipartResponseAggregator")
		return
	}
	isHasNextLoad := func(v ssa.Value) bool {
		u, ok := v.(*ssa.UnOp)
		if !ok || u.Op != token.MUL {
			return false
		}
		fa, ok := loadAddr(u.X).(*ssa.FieldAddr)
		return ok && fieldNameOf(fa) == "HasNext"
	}
	n := 0
	for _, fn := range fns {
		for _, b := range fn.Blocks {
			for _, in := range b.Instrs {
				phi, ok := in.(*ssa.Phi)
				if !ok {
					continue
				}
				has := false
				for _, e := range phi.Edges {
					if isHasNextLoad(e) {
						has = true
					}
				}
				if !has {
					continue
				}
				n++
				ok = true
				for _, e := range phi.Edges {
					if k, isC := e.(*ssa.Const); isC && k.Value != nil && k.Value.Kind() == constant.Bool && constant.BoolVal(k.Value) {
						ok = false
					}
				}
				c.R.Check(ok, sprintf("flush/hasNext-merge#%d", n), c.pos(phi.Pos()), "absent hasNext counts as false",
					"a payload without hasNext is treated as hasNext:true: a response without @defer sent as multipart/mixed is followed by a separating boundary and the closing boundary never appears")
			}
		}
	}
	if n < 2 {
		c.R.Fail("hasnext-absent-is-false: %d merges of *HasNext found", n)
	}
}

// streamLoopExits: a transport's loop around the response handler (`for { r := responses(ctx); if r == nil { break }; … }`) is
// left only on the handler's nil result: every conditional exit of such a loop tests exactly `result == nil`.  Any other
// exit condition (on the payload's data, errors, …) drops that payload and every later one.
func streamLoopExits(c *Ctx) {
	c.R.Rule("stream-loop-exits-on-nil", "package transport: a loop that calls the graphql.ResponseHandler is left only from a test `result == nil` of that call's result (or by return after a failed write)", 3)
	n := 0
	for _, fn := range transportFuncs(c) {
		for _, l := range an.Loops(fn) {
			var hcall ssa.Value
			for b := range l.Blocks {
				for _, in := range b.Instrs {
					call, ok := in.(*ssa.Call)
					if !ok || call.Call.IsInvoke() || call.Call.StaticCallee() != nil {
						continue
					}
					if an.NamedIs(call.Call.Value.Type(), pkgGraphql, "ResponseHandler") {
						hcall = call
					}
				}
			}
			if hcall == nil {
				continue
			}
			n++
			var bad ssa.Instruction
			for _, e := range l.Exits {
				if len(e.From.Instrs) == 0 {
					continue
				}
				iff, ok := e.From.Instrs[len(e.From.Instrs)-1].(*ssa.If)
				if !ok {
					continue
				}
				bo, ok := iff.Cond.(*ssa.BinOp)
				isResult := func(v ssa.Value) bool {
					v = an.Strip(v)
					if v == hcall || an.SameVar(v, hcall) {
						return true
					}
					// `for r := h(ctx); r != nil; r = h(ctx)`: the tested value merges two calls of the handler
					phi, isPhi := v.(*ssa.Phi)
					if !isPhi {
						return false
					}
					for _, e := range phi.Edges {
						call, isCall := an.Strip(e).(*ssa.Call)
						if !isCall || !an.NamedIs(call.Call.Value.Type(), pkgGraphql, "ResponseHandler") {
							return false
						}
					}
					return true
				}
				okExit := ok && (bo.Op == token.EQL || bo.Op == token.NEQ) && isResult(bo.X) && an.IsNilConst(bo.Y)
				if !okExit {
					bad = iff
				}
			}
			pos := c.pos(fn.Pos())
			if bad != nil {
				pos = c.ipos(bad)
			}
			c.R.Check(bad == nil, shortFn(topFn(fn))+"/response-loop", pos, "left only when the handler returns nil",
				"the response loop is also left on a condition other than `response == nil`: a payload that meets it (an error-only payload without data, …) and every later payload are dropped, and the stream ends early")
		}
	}
	if n < 3 {
		c.R.Fail("stream-loop-exits-on-nil: %d response loops found", n)
	}
}

// aggregatorMethods: the methods of transport.multipartResponseAggregator (flush may be split into helpers).
func aggregatorMethods(c *Ctx) []*ssa.Function {
	var out []*ssa.Function
	for _, fn := range transportFuncs(c) {
		if fn.Parent() != nil || fn.Signature.Recv() == nil {
			continue
		}
		if an.NamedIs(fn.Signature.Recv().Type(), pkgTransport, "multipartResponseAggregator") {
			out = append(out, fn)
		}
	}
	return out
}
