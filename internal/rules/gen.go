package rules

import (
	"go/ast"
	"go/token"
	"os"
	"path/filepath"
	"strconv"
	"strings"

	"github.com/vektah/gqlparser/v2"
	gast "github.com/vektah/gqlparser/v2/ast"
	"golang.org/x/tools/go/ssa"
	"gopkg.in/yaml.v3"

	"verif/internal/an"
)

// schema returns the schema a materialised executor embeds (its `sources` table), parsed with the
// same library the generated code uses.  The SDL text is read statically from the generated
// package: string literals, or files named by sourceData("x") relative to the package directory.
func (c *Ctx) schema(g *GenPkg) *gast.Schema {
	if g.schemaDone {
		return g.schemaVal
	}
	g.schemaDone = true
	tp := c.W.TPkg(g.Path)
	if tp == nil {
		c.R.Fail("gen:%s: package not loaded", g.Name)
		return nil
	}
	var srcs []*gast.Source
	dir := ""
	if len(tp.GoFiles) > 0 {
		dir = filepath.Dir(tp.GoFiles[0])
	}
	for _, f := range tp.Syntax {
		ast.Inspect(f, func(n ast.Node) bool {
			vs, ok := n.(*ast.ValueSpec)
			if !ok || len(vs.Names) != 1 || vs.Names[0].Name != "sources" || len(vs.Values) != 1 {
				return true
			}
			cl, ok := vs.Values[0].(*ast.CompositeLit)
			if !ok {
				return true
			}
			for _, e := range cl.Elts {
				el, ok := e.(*ast.CompositeLit)
				if !ok {
					continue
				}
				s := &gast.Source{}
				for _, kv := range el.Elts {
					kve, ok := kv.(*ast.KeyValueExpr)
					if !ok {
						continue
					}
					k := kve.Key.(*ast.Ident).Name
					switch v := kve.Value.(type) {
					case *ast.BasicLit:
						if v.Kind == token.STRING {
							str, _ := strconv.Unquote(v.Value)
							if k == "Name" {
								s.Name = str
							} else if k == "Input" {
								s.Input = str
							}
						}
					case *ast.BinaryExpr: // `...` + "`" + `...` (rawQuote of backticks)
						if k == "Input" {
							s.Input = concatLits(v)
						}
					case *ast.CallExpr:
						if k == "Input" && len(v.Args) == 1 {
							if bl, ok := v.Args[0].(*ast.BasicLit); ok {
								fn, _ := strconv.Unquote(bl.Value)
								b, err := os.ReadFile(filepath.Join(dir, fn))
								if err != nil {
									c.R.Fail("gen:%s: embedded schema file %s not readable: %v", g.Name, fn, err)
								}
								s.Input = string(b)
							}
						}
					case *ast.Ident:
						if k == "BuiltIn" {
							s.BuiltIn = v.Name == "true"
						}
					}
				}
				srcs = append(srcs, s)
			}
			return false
		})
	}
	if len(srcs) == 0 {
		c.R.Fail("gen:%s: no `sources` table found in the generated package", g.Name)
		return nil
	}
	sch, err := gqlparser.LoadSchema(srcs...)
	if err != nil {
		c.R.Fail("gen:%s: embedded schema does not load: %v", g.Name, err)
		return nil
	}
	g.schemaVal = sch
	return sch
}

func concatLits(e ast.Expr) string {
	switch v := e.(type) {
	case *ast.BasicLit:
		s, _ := strconv.Unquote(v.Value)
		return s
	case *ast.BinaryExpr:
		return concatLits(v.X) + concatLits(v.Y)
	case *ast.ParenExpr:
		return concatLits(v.X)
	}
	return ""
}

// config returns the parsed generator configuration (YAML) of a materialised package.
func (c *Ctx) config(g *GenPkg) map[string]any {
	if g.cfgDone {
		return g.cfg
	}
	g.cfgDone = true
	cf := g.Spec.Config
	if cf == "" {
		cf = "gqlgen.yml"
	}
	b, err := os.ReadFile(filepath.Join(c.W.Snap.Dir, g.Spec.Dir, cf))
	if err != nil {
		c.R.Fail("gen:%s: config not readable: %v", g.Name, err)
		return nil
	}
	m := map[string]any{}
	if err := yaml.Unmarshal(b, &m); err != nil {
		c.R.Fail("gen:%s: config does not parse: %v", g.Name, err)
		return nil
	}
	g.cfg = m
	return m
}

func (c *Ctx) cfgBool(g *GenPkg, key string) bool {
	m := c.config(g)
	parts := strings.Split(key, ".")
	var cur any = m
	for _, p := range parts {
		mm, ok := cur.(map[string]any)
		if !ok {
			return false
		}
		cur = mm[p]
	}
	b, _ := cur.(bool)
	return b
}

func isReservedName(n string) bool { return strings.HasPrefix(n, "__") }

// genFuncs returns every function (incl. closures) of the materialised package.
func (c *Ctx) genFuncs(g *GenPkg) []*ssa.Function {
	if g.funcs == nil {
		g.funcs = c.W.FuncsIn(func(p string) bool { return p == g.Path })
	}
	return g.funcs
}

// genFunc finds a generated function by its contract name: method of executionContext /
// executableSchema or (function syntax) package-level function.
func (c *Ctx) genFunc(g *GenPkg, name string) *ssa.Function {
	if g.SSA == nil {
		return nil
	}
	for _, recv := range []string{"*executionContext.", "*executableSchema.", ""} {
		if f := c.W.Func(g.Path, recv+name); f != nil && len(f.Blocks) > 0 && f.Synthetic == "" {
			return f
		}
	}
	return nil
}

// switchCases collects the string constants a function compares the given value against with ==
// (the cases of `switch v { case "a", "b": ... }`), mapped to the block entered on equality.
func switchCases(fn *ssa.Function, isSubject func(ssa.Value) bool) map[string]*ssa.BasicBlock {
	out := map[string]*ssa.BasicBlock{}
	for _, e := range an.CondEdges(fn) {
		if e.Fact.Op != token.EQL {
			continue
		}
		for _, pr := range [][2]ssa.Value{{e.Fact.X, e.Fact.Y}, {e.Fact.Y, e.Fact.X}} {
			if s, ok := an.ConstString(pr[1]); ok && isSubject(pr[0]) {
				out[s] = e.To
			}
		}
	}
	return out
}

// fileOf returns the repo-relative file that defines f.
func (g *GenPkg) fileOf(f *ssa.Function) string {
	if f.Prog == nil || !f.Pos().IsValid() {
		return ""
	}
	name := f.Prog.Fset.Position(f.Pos()).Filename
	if i := strings.Index(name, "/repo/"); i >= 0 {
		return name[i+len("/repo/"):]
	}
	return name
}
