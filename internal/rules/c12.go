package rules

import (
	"go/token"
	"go/types"
	"sort"
	"strings"

	"golang.org/x/tools/go/ssa"

	"verif/internal/an"
)

func init() {
	register(&Property{
		ID:      "C12",
		NeedGen: true,
		Runtime: RuntimeCore,
		Run:     runC12,
		Explanation: "Mutual exclusion and exactly-once terminal markers of the streamed HTTP transports: (shared-writer) when a transport hands its ResponseWriter to a goroutine (SSE keep-alive, multipart/mixed flush ticker), every " +
			"write or flush through that writer that can run while the goroutine exists — in the goroutine, in the spawning function after the spawn, and in same-package helpers they call — executes with one common mutex " +
			"held (must-lockset, inherited through call sites); (terminal-once) SSE writes `event: complete` exactly once on every path that wrote the stream preamble and writes no event after it; multipart/mixed defers " +
			"aggregator.Done right after creating the aggregator, and Done signals the ticker goroutine before its final flush; (pending-queue) the aggregator's pending payloads are accessed only under its mutex, a " +
			"snapshot of the pending slice is not read after the mutex is released unless the queue was given a new backing array (set to nil) under the same lock, and whatever is written is removed from the queue on every path before the lock is released. (format-constant) every fmt.Fprintf in package transport has a constant format (through helper parameters: at every call site).",
		NotDecided:  "that the bytes parse as complete events/MIME parts for every timing (needs the value of every write); the aggregator's hasNext logic; client disconnect handling inside net/http",
		Assumptions: []string{"http.ResponseWriter is not safe for concurrent use", "one critical section per event is what keeps pings from being spliced into events"},
	})
}

// writerOp: an operation that writes or flushes an HTTP response stream.
func isWriterType(t types.Type) bool {
	s := t.String()
	return strings.HasSuffix(s, "net/http.ResponseWriter") || s == "io.Writer" || strings.HasSuffix(s, "net/http.Flusher")
}

type wop struct {
	in      ssa.Instruction
	helper  *ssa.Function      // same-package callee that receives the writer (nil for a primitive write)
	wrapper *an.WrappedClosure // helper is a function literal handed to this same-package wrapper, which calls it
}

// writerOps lists primitive writes (invoke on a writer type, fmt.Fprint*/io.WriteString on one) and helper calls that pass a writer on.
func writerOps(fn *ssa.Function) []wop {
	var out []wop
	// function literals handed to a same-package helper that calls them (`c.locked(func() { write })`)
	for _, w := range an.WrappedClosures(fn) {
		if w.Wrapper.Pkg != nil && w.Wrapper.Pkg.Pkg.Path() == pkgTransport && helperTouchesWriter(w.Closure, 0) {
			w := w
			out = append(out, wop{w.Call, w.Closure, &w})
		}
	}
	for _, b := range fn.Blocks {
		for _, in := range b.Instrs {
			call, ok := in.(ssa.CallInstruction)
			if !ok {
				continue
			}
			if _, isGo := in.(*ssa.Go); isGo {
				continue
			}
			cc := call.Common()
			if cc.IsInvoke() {
				if isWriterType(cc.Value.Type()) && cc.Method.Name() != "Header" {
					out = append(out, wop{in: in})
				}
				continue
			}
			callee := cc.StaticCallee()
			passes := false
			for _, a := range cc.Args {
				if isWriterType(a.Type()) {
					passes = true
				}
			}
			if callee == nil {
				continue
			}
			n := an.CalleeOf(call).FullName()
			switch {
			case passes && (strings.HasPrefix(n, "fmt.Fprint") || n == "io.WriteString"):
				out = append(out, wop{in: in})
			case callee.Pkg != nil && callee.Pkg.Pkg.Path() == pkgTransport && len(callee.Blocks) > 0:
				// helper: passes a writer, or is a method of a connection/aggregator type that owns one (flush)
				if passes || helperTouchesWriter(callee, 0) {
					out = append(out, wop{in: in, helper: callee})
				}
			}
		}
	}
	return out
}

var touchCache = map[*ssa.Function]bool{}

func helperTouchesWriter(fn *ssa.Function, depth int) bool {
	if v, ok := touchCache[fn]; ok {
		return v
	}
	touchCache[fn] = false
	if depth > 4 {
		return false
	}
	for _, op := range writerOps(fn) {
		if op.helper == nil || helperTouchesWriter(op.helper, depth+1) {
			touchCache[fn] = true
			return true
		}
	}
	return false
}

// lockClass: "(pkg.Type).field" of a held mutex key's struct, derived from the Lock call sites of fn.
func lockClasses(fn *ssa.Function) map[string]string {
	out := map[string]string{} // lock key -> class
	for _, b := range fn.Blocks {
		for _, in := range b.Instrs {
			addr, lock, _, _ := an.LockOp(in)
			if addr == nil || !lock {
				continue
			}
			if fa, ok := addr.(*ssa.FieldAddr); ok {
				t := fa.X.Type()
				if p, ok := t.Underlying().(*types.Pointer); ok {
					t = p.Elem()
				}
				out[an.LockKey(addr)] = types.TypeString(t, func(p *types.Package) string { return p.Name() }) + "." + fieldNameOf(fa)
			}
		}
	}
	return out
}

// heldClasses: classes of mutexes definitely held at instruction in.
func heldClasses(fn *ssa.Function, ls map[ssa.Instruction]map[string]bool, in ssa.Instruction) map[string]bool {
	cl := lockClasses(fn)
	out := map[string]bool{}
	for k := range ls[in] {
		if c, ok := cl[k]; ok {
			out[c] = true
		}
	}
	return out
}

type opReport struct {
	pos    string
	where  string
	held   map[string]bool
	instr  ssa.Instruction
	callee string
}

// collectOps walks fn (from instruction `after` on, if given) and the helpers it calls, propagating the lock classes held at call sites.
func (c *Ctx) collectOps(fn *ssa.Function, after ssa.Instruction, inherited map[string]bool, depth int, out *[]opReport, seen map[*ssa.Function]bool) {
	if depth > 5 {
		return
	}
	ls := an.Locksets(fn)
	for _, op := range writerOps(fn) {
		if after != nil {
			if _, isDefer := op.in.(*ssa.Defer); !isDefer && !an.CanReach(after, op.in) {
				continue
			}
		}
		held := heldClasses(fn, ls, op.in)
		for k := range inherited {
			held[k] = true
		}
		if _, isDefer := op.in.(*ssa.Defer); isDefer {
			// runs at function exit: locks held at the defer statement say nothing; only inherited ones count
			held = map[string]bool{}
			for k := range inherited {
				held[k] = true
			}
		}
		if op.helper == nil {
			*out = append(*out, opReport{pos: c.ipos(op.in), where: shortFn(topFn(fn)), held: held, instr: op.in})
			continue
		}
		if w := op.wrapper; w != nil {
			// the literal runs where the wrapper calls it: add the classes the wrapper holds at every such call; if the wrapper
			// also keeps the function value some other way, nothing is known about when it runs
			if w.Escapes || len(w.Invokes) == 0 {
				held = map[string]bool{}
			} else {
				wls := an.Locksets(w.Wrapper)
				var inW map[string]bool
				for _, inv := range w.Invokes {
					h := heldClasses(w.Wrapper, wls, inv)
					if inW == nil {
						inW = h
						continue
					}
					for k := range inW {
						if !h[k] {
							delete(inW, k)
						}
					}
				}
				for k := range inW {
					held[k] = true
				}
			}
		}
		key := op.helper
		if seen[key] && len(held) == 0 {
			continue
		}
		seen[key] = true
		before := len(*out)
		c.collectOps(op.helper, nil, held, depth+1, out, seen)
		// attribute unprotected helper writes to this call site for the report
		for i := before; i < len(*out); i++ {
			if (*out)[i].callee == "" {
				(*out)[i].callee = shortFn(op.helper) + " called at " + c.ipos(op.in)
			}
		}
	}
}

func runC12(c *Ctx) {
	c.R.Rule("shared-writer", "for every transport whose ResponseWriter is reachable from a goroutine it starts: every write/flush through the writer in that goroutine and in the spawner after the spawn (incl. same-package helpers, with locks inherited from call sites) holds one common mutex class", 2)
	spawns := c12WriterSpawns(c)
	if len(spawns) < 2 {
		c.R.Fail("unresolved anchor: expected the SSE keep-alive and multipart/mixed ticker goroutines, found %d writer-sharing goroutines", len(spawns))
	}
	for _, sp := range spawns {
		var ops []opReport
		c.collectOps(sp.goSite.Callee, nil, nil, 0, &ops, map[*ssa.Function]bool{})
		nGo := len(ops)
		c.collectOps(sp.do, sp.at, nil, 0, &ops, map[*ssa.Function]bool{})
		// the common class: intersection over all ops
		var common map[string]bool
		for _, o := range ops {
			if c.reviewedWriterOp(sp.do, o) {
				continue
			}
			if common == nil {
				common = map[string]bool{}
				for k := range o.held {
					common[k] = true
				}
				continue
			}
			for k := range common {
				if !o.held[k] {
					delete(common, k)
				}
			}
		}
		key := shortFn(sp.do) + "/goroutine:" + shortFn(sp.goSite.Callee)
		if len(ops) == 0 || nGo == 0 {
			c.R.Unknown(key, c.ipos(sp.goSite.Go), "no writer operations found for a goroutine that receives the writer")
			continue
		}
		if len(common) > 0 {
			var cls []string
			for k := range common {
				cls = append(cls, k)
			}
			sort.Strings(cls)
			c.R.OK(key, c.ipos(sp.goSite.Go), sprintf("%d writer operations (%d in the goroutine), all under %s", len(ops), nGo, strings.Join(cls, ",")))
			continue
		}
		// report the unprotected ones
		var bad []string
		for _, o := range ops {
			if c.reviewedWriterOp(sp.do, o) {
				continue
			}
			if len(o.held) == 0 {
				s := o.where + " at " + o.pos
				if o.callee != "" {
					s += " (" + o.callee + ")"
				}
				bad = append(bad, s)
			}
		}
		sort.Strings(bad)
		if len(bad) > 6 {
			bad = append(bad[:6], sprintf("… %d more", len(bad)-6))
		}
		c.R.Bad(key, c.ipos(sp.goSite.Go), "the response writer is shared with a goroutine but written without a common lock: "+strings.Join(bad, "; ")+" — a keep-alive/flush tick can interleave with an event and corrupt the stream")
	}

	c12TerminalOnce(c)
	c12PendingQueue(c)
	batchHasNextFromLast(c)
	hasNextAbsentIsFalse(c)
	streamLoopExits(c)
	c12FormatConstant(c)
	c12WriterGoroutineBounded(c)
	c12Round2(c)
	// hasNext decides between the separating and the closing boundary: the counters behind it (C13/accounting)
	c13Accounting(c)
	deferredCounterCompared(c)
	layoutAgreement(c)
}

// writerSpawn: a goroutine started (directly or in a same-package helper) by a transport's Do that can reach the ResponseWriter.
type writerSpawn struct {
	do     *ssa.Function
	goSite an.GoSite
	at     ssa.Instruction // instruction in `do` after which the goroutine may exist
}

func c12WriterSpawns(c *Ctx) []writerSpawn {
	type spawn = writerSpawn
	var spawns []spawn
	for _, name := range []string{"SSE.Do", "MultipartMixed.Do", "POST.Do", "GET.Do", "GRAPHQL.Do", "UrlEncodedForm.Do", "MultipartForm.Do"} {
		do := c.W.Func(pkgTransport, name)
		if do == nil {
			continue
		}
		// direct go statements
		for _, gs := range an.GoSites(do) {
			if gs.Callee != nil && goroutineTouchesWriter(gs) {
				spawns = append(spawns, spawn{do, gs, gs.Go})
			}
		}
		// go statements inside same-package helpers that receive the writer
		for _, call := range an.CallsIn(do, func(ci ssa.CallInstruction, info an.CalleeInfo) bool {
			return info.Static != nil && info.Static.Pkg != nil && info.Static.Pkg.Pkg.Path() == pkgTransport
		}) {
			for _, gs := range an.GoSites(call.Common().StaticCallee()) {
				if gs.Callee != nil && goroutineTouchesWriter(gs) {
					spawns = append(spawns, spawn{do, gs, call})
				}
			}
		}
	}
	return spawns
}

// reviewedWriterOp: table of accepted operations, one line of reason each.
func (c *Ctx) reviewedWriterOp(do *ssa.Function, o opReport) bool {
	d, isDefer := o.instr.(*ssa.Defer)
	if !isDefer {
		return false
	}
	// MultipartMixed.Do: `defer flusher.Flush()` is registered before the aggregator exists and therefore runs (LIFO) after the
	// deferred aggregator.Done, whose final locked flush drains the aggregator and signals the ticker; later ticker flushes find
	// nothing pending.  Side condition checked here: a later-registered defer in the same function calls a function that sends on a done channel.
	if d.Call.IsInvoke() && d.Call.Method.Name() == "Flush" {
		for _, b := range do.Blocks {
			for _, in := range b.Instrs {
				d2, ok := in.(*ssa.Defer)
				if !ok || d2 == d || !an.Before(d, d2) {
					continue
				}
				if callee := d2.Call.StaticCallee(); callee != nil {
					for _, b2 := range callee.Blocks {
						for _, in2 := range b2.Instrs {
							if s, ok := in2.(*ssa.Send); ok && an.IsDoneChan(s.Chan) {
								return true
							}
						}
					}
				}
			}
		}
	}
	return false
}

// goroutineTouchesWriter: the goroutine receives a writer argument or captures one, or its callee's helpers flush one.
func goroutineTouchesWriter(gs an.GoSite) bool {
	for _, a := range gs.Go.Call.Args {
		if isWriterType(a.Type()) {
			return true
		}
	}
	// `go c.keepAlive()`: the writer travels inside the receiver (a struct field), the callee writes to it
	if gs.Callee != nil && gs.Callee.Pkg != nil && gs.Callee.Pkg.Pkg.Path() == pkgTransport && helperTouchesWriter(gs.Callee, 0) {
		return true
	}
	if mc, ok := gs.Go.Call.Value.(*ssa.MakeClosure); ok {
		for _, b := range mc.Bindings {
			t := b.Type()
			if p, ok := t.(*types.Pointer); ok {
				t = p.Elem()
			}
			if isWriterType(t) {
				return true
			}
		}
	}
	return false
}

func c12TerminalOnce(c *Ctx) {
	c.R.Rule("terminal-once", "SSE.Do: every path from the stream preamble to a return writes the `complete` event exactly once (not in a loop) and writes no `next` event after it; MultipartMixed.Do defers aggregator.Done immediately after creating the aggregator and Done sends the stop signal before its final flush", 3)
	if do := c.fn(pkgTransport, "SSE.Do"); do != nil {
		isFprintConst := func(in ssa.Instruction, substr string) bool {
			call, ok := in.(*ssa.Call)
			if !ok {
				return false
			}
			if !strings.HasPrefix(an.CalleeOf(call).FullName(), "fmt.Fprint") {
				// a same-package write helper handed the marker as a constant (c.writef(w, "event: complete\n\n"))
				h := call.Call.StaticCallee()
				if h == nil || h.Pkg == nil || h.Pkg.Pkg.Path() != pkgTransport || !helperTouchesWriter(h, 0) {
					return false
				}
				for _, a := range call.Call.Args {
					if s, ok := an.ConstString(an.Strip(a)); ok && strings.Contains(s, substr) {
						return true
					}
				}
				return false
			}
			for _, a := range call.Call.Args {
				for _, d := range an.Defs(a) {
					if al, ok := d.(*ssa.Alloc); ok { // variadic backing array
						for _, r := range an.Referrers(al) {
							if ia, ok := r.(*ssa.IndexAddr); ok {
								for _, r2 := range an.Referrers(ia) {
									if st, ok := r2.(*ssa.Store); ok {
										if s, ok := an.ConstString(an.Strip(st.Val)); ok && strings.Contains(s, substr) {
											return true
										}
									}
								}
							}
						}
					}
					if sl, ok := d.(*ssa.Slice); ok {
						if al, ok := sl.X.(*ssa.Alloc); ok {
							for _, r := range an.Referrers(al) {
								if ia, ok := r.(*ssa.IndexAddr); ok {
									for _, r2 := range an.Referrers(ia) {
										if st, ok := r2.(*ssa.Store); ok {
											if s, ok := an.ConstString(an.Strip(st.Val)); ok && strings.Contains(s, substr) {
												return true
											}
										}
									}
								}
							}
						}
					}
					if s, ok := an.ConstString(an.Strip(d)); ok && strings.Contains(s, substr) {
						return true
					}
				}
			}
			return false
		}
		var preamble, complete []ssa.Instruction
		var nexts []ssa.Instruction
		classify := func(in, site ssa.Instruction) {
			if isFprintConst(in, "event: complete") {
				complete = append(complete, site)
			} else if isFprintConst(in, ":\n\n") {
				preamble = append(preamble, site)
			}
		}
		for _, b := range do.Blocks {
			for _, in := range b.Instrs {
				classify(in, in)
			}
		}
		// a write that a same-package helper performs exactly once per call happens at that helper's call site in Do
		for _, b := range do.Blocks {
			for _, in := range b.Instrs {
				call, ok := in.(*ssa.Call)
				if !ok {
					continue
				}
				h := call.Call.StaticCallee()
				if h == nil || h.Pkg == nil || h.Pkg.Pkg.Path() != pkgTransport || len(h.Blocks) == 0 || h == do {
					continue
				}
				for _, hb := range h.Blocks {
					for _, hin := range hb.Instrs {
						if !isFprintConst(hin, "event: complete") && !isFprintConst(hin, ":\n\n") {
							continue
						}
						once := !an.CanReach(hin, hin)
						for _, r := range an.Returns(h) {
							if h.Recover != nil && r.Block() == h.Recover {
								continue
							}
							if !an.Before(hin, r) {
								once = false
							}
						}
						if once {
							classify(hin, in)
						}
					}
				}
			}
		}
		// a write inside a function literal that a same-package helper calls exactly once happens at that helper call
		for _, w := range an.WrappedClosures(do) {
			if !w.Once {
				continue
			}
			for _, b := range w.Closure.Blocks {
				for _, in := range b.Instrs {
					classify(in, w.Call)
				}
			}
		}
		_ = nexts
		bad := ""
		if len(preamble) != 1 || len(complete) != 1 {
			bad = sprintf("expected one stream preamble write and one complete write, found %d and %d", len(preamble), len(complete))
		} else {
			p, cm := preamble[0], complete[0]
			if an.CanReach(cm, cm) {
				bad = "the complete event is written inside a loop"
			}
			for _, r := range an.Returns(do) {
				if an.CanReach(p, r) && !passesOnAllPaths(p, r, cm) {
					bad = "a return at " + c.ipos(r) + " is reachable after the preamble without writing the complete event"
				}
			}
			for _, op := range writerOps(do) {
				if _, isDefer := op.in.(*ssa.Defer); isDefer || op.in == cm {
					continue
				}
				if an.CanReach(cm, op.in) {
					bad = "the stream is written at " + c.ipos(op.in) + " after the complete event"
				}
			}
		}
		c.R.Check(bad == "", "SSE.Do/complete-once", c.pos(do.Pos()), "complete written exactly once after the preamble, nothing after it", bad)
	}
	if do := c.fn(pkgTransport, "MultipartMixed.Do"); do != nil {
		var mk ssa.Instruction
		var doneDefer *ssa.Defer
		var doneFn *ssa.Function
		for _, b := range do.Blocks {
			for _, in := range b.Instrs {
				if call, ok := in.(*ssa.Call); ok && call.Call.StaticCallee() != nil && len(an.GoSites(call.Call.StaticCallee())) > 0 && call.Call.StaticCallee().Pkg.Pkg.Path() == pkgTransport {
					mk = in
				}
				if d, ok := in.(*ssa.Defer); ok && d.Call.StaticCallee() != nil {
					for _, b2 := range d.Call.StaticCallee().Blocks {
						for _, in2 := range b2.Instrs {
							if s, ok := in2.(*ssa.Send); ok && an.IsDoneChan(s.Chan) {
								doneDefer, doneFn = d, d.Call.StaticCallee()
							}
						}
					}
				}
			}
		}
		bad := ""
		switch {
		case mk == nil:
			bad = "no aggregator (helper that starts the flush goroutine) is created"
		case doneDefer == nil:
			bad = "no deferred call that signals the flush goroutine's done channel"
		case !an.Before(mk, doneDefer):
			bad = "the Done defer is not registered after the aggregator is created on every path"
		default:
			// nothing that can return or dispatch between creation and the defer
			for _, b := range do.Blocks {
				for _, in := range b.Instrs {
					if _, isRet := in.(*ssa.Return); isRet && an.CanReach(mk, in) && !an.Before(doneDefer, in) {
						bad = "a return is reachable between creating the aggregator and deferring Done: the ticker goroutine would never be stopped"
					}
				}
			}
		}
		c.R.Check(bad == "", "MultipartMixed.Do/done-deferred", c.pos(do.Pos()), "Done deferred right after the aggregator is created", bad)
		if doneFn != nil {
			var send, flush ssa.Instruction
			for _, b := range doneFn.Blocks {
				for _, in := range b.Instrs {
					if s, ok := in.(*ssa.Send); ok && an.IsDoneChan(s.Chan) {
						send = in
					}
					if call, ok := in.(ssa.CallInstruction); ok && call.Common().StaticCallee() != nil && helperTouchesWriter(call.Common().StaticCallee(), 0) {
						flush = in
					}
				}
			}
			c.R.Check(send != nil && flush != nil && an.Before(send, flush), shortFn(doneFn)+"/signal-before-final-flush", c.pos(doneFn.Pos()), "stop signal precedes the final flush",
				"Done does not signal the ticker before its final flush (or does not flush): the closing boundary may be followed by another part")
		}
	}
}

// passesOnAllPaths: every path from a to b executes m.
func passesOnAllPaths(a, b, m ssa.Instruction) bool {
	if a.Parent() != b.Parent() {
		return false
	}
	// forward search from a avoiding m
	seen := map[*ssa.BasicBlock]bool{}
	var walk func(blk *ssa.BasicBlock, from int) bool // true if b reachable avoiding m
	walk = func(blk *ssa.BasicBlock, from int) bool {
		for i := from; i < len(blk.Instrs); i++ {
			if blk.Instrs[i] == m {
				return false
			}
			if blk.Instrs[i] == b {
				return true
			}
		}
		for _, s := range blk.Succs {
			if seen[s] {
				continue
			}
			seen[s] = true
			if walk(s, 0) {
				return true
			}
		}
		return false
	}
	return !walk(a.Block(), an.InstrIndex(a)+1)
}

var _ = token.ADD
