package rules

import (
	"go/types"

	"golang.org/x/tools/go/ssa"

	"verif/internal/an"
)

// rootOnce: the response handler that Exec returns for a query or a mutation runs the root object function at most once per
// operation.  The handler is called repeatedly by every transport until it returns nil; a second run of the root re-executes
// every resolver (mutations applied twice) and, where nothing else makes the handler return nil, never lets the transport's
// loop end.  Shape checked per materialised executor: every call of the query/mutation root function inside a closure of Exec
// is edge-dominated by the truth of a bool variable of Exec ("first"), that same variable is set to false on every path
// through the call to a return of the closure, and nothing inside a closure sets it back to true.
func rootOnce(c *Ctx) {
	c.R.Rule("root-once", "per materialised executor: each call of the query/mutation root object function in Exec's response closures is guarded by a bool variable of Exec being true, that variable is set false on every path through the call, and no closure sets it true again", len(c.Gen))
	n := 0
	for _, g := range c.Gen {
		sch := c.schema(g)
		exec := c.genFunc(g, "Exec")
		if sch == nil || exec == nil {
			continue
		}
		roots := map[string]string{}
		if sch.Query != nil {
			roots["_"+sch.Query.Name] = "query"
		}
		if sch.Mutation != nil {
			roots["_"+sch.Mutation.Name] = "mutation"
		}
		found := map[string]bool{}
		for _, cl := range an.WithClosures(exec) {
			if cl == exec {
				continue
			}
			for _, call := range an.CallsIn(cl, func(_ ssa.CallInstruction, ci an.CalleeInfo) bool {
				return ci.Static != nil && ci.Static.Pkg == g.SSA && roots[ci.Static.Name()] != ""
			}) {
				kind := roots[call.Common().StaticCallee().Name()]
				found[kind] = true
				n++
				key := "gen:" + g.Name + "/Exec/" + kind + "-root"
				// with an operation-level directive the root runs inside the function literal handed to the operation middleware:
				// the literal's creation site in the response closure stands for the call
				origCall := call
				var call ssa.Instruction = origCall
				cl := cl
				for cl.Parent() != nil && cl.Parent() != exec {
					var mk ssa.Instruction
					for _, b := range cl.Parent().Blocks {
						for _, in := range b.Instrs {
							if mc, ok := in.(*ssa.MakeClosure); ok && mc.Fn == ssa.Value(cl) {
								mk = in
							}
						}
					}
					if mk == nil {
						break
					}
					call, cl = mk, cl.Parent()
				}
				// (a) guarded by a bool cell of Exec
				var flag ssa.Value
				for _, f := range an.Facts(call) {
					if f.Y != nil || f.Neg {
						continue
					}
					ld, ok := f.X.(*ssa.UnOp)
					if !ok {
						continue
					}
					root := an.RootAlloc(ld.X)
					al, ok := root.(*ssa.Alloc)
					if !ok || al.Parent() != exec {
						continue
					}
					if bt, ok := al.Type().(*types.Pointer).Elem().Underlying().(*types.Basic); ok && bt.Kind() == types.Bool {
						flag = al
					}
				}
				if flag == nil {
					if why := handlerSwapForm(exec, cl); why != "" {
						c.R.OK(key, c.ipos(call), why)
						continue
					}
					c.R.Bad(key, c.ipos(call), "the "+kind+" root is executed on every call of the response handler (no once-flag of Exec guards it): transports call the handler until it returns nil, so every resolver runs again")
					continue
				}
				// (b) cleared on every path through the call; (c) never set true in a closure
				bad := ""
				var clears []ssa.Instruction
				for _, st := range an.CellStores(flag) {
					k, isC := st.Val.(*ssa.Const)
					isFalse := isC && k.Value != nil && k.Value.String() == "false"
					if st.Parent() == exec {
						continue // initialisation
					}
					if !isFalse {
						bad = "the once-flag is set to something other than false at " + c.ipos(st)
					} else if st.Parent() == cl {
						clears = append(clears, st)
					}
				}
				if bad == "" {
					ok := false
					for _, st := range clears {
						if an.Before(st, call) {
							ok = true
						}
					}
					if !ok {
						ok = len(clears) > 0
						for _, r := range an.Returns(cl) {
							if cl.Recover != nil && r.Block() == cl.Recover {
								continue
							}
							if !an.CanReach(call, r) {
								continue
							}
							if !pathsPass(call, r, func(i ssa.Instruction) bool {
								for _, st := range clears {
									if i == ssa.Instruction(st) {
										return true
									}
								}
								return false
							}) {
								ok = false
							}
						}
					}
					if !ok {
						bad = "the once-flag is not cleared on every path that runs the " + kind + " root: a later call of the handler runs it again"
					}
				}
				c.R.Check(bad == "", key, c.ipos(call), "guarded by "+flag.Name()+", cleared on every path", bad)
			}
		}
		for _, kind := range roots {
			if !found[kind] {
				c.R.Bad("gen:"+g.Name+"/Exec/"+kind+"-root", c.pos(exec.Pos()), "no call of the "+kind+" root function found in Exec's response closures")
			}
		}
	}
	if n == 0 {
		c.R.Fail("root-once found no root calls")
	}
}

// handlerSwapForm: the once-ness kept by control flow instead of a flag.  The function literal that runs the root (rootFn) is
// the initial value of a variable of Exec; whoever calls through that variable first stores into it a literal that does not run
// the root, and nothing ever stores rootFn into it again.
func handlerSwapForm(exec, rootFn *ssa.Function) string {
	reachesRoot := func(f *ssa.Function) bool {
		for _, x := range an.WithClosures(f) {
			if x == rootFn {
				return true
			}
		}
		return f == rootFn
	}
	for _, b := range exec.Blocks {
		for _, in := range b.Instrs {
			st, ok := in.(*ssa.Store)
			if !ok {
				continue
			}
			mc, ok := st.Val.(*ssa.MakeClosure)
			if !ok || mc.Fn != ssa.Value(rootFn) {
				continue
			}
			cell, ok := st.Addr.(*ssa.Alloc)
			if !ok {
				continue
			}
			// every other store to the cell stores a literal that cannot run the root
			others := 0
			for _, s2 := range an.CellStores(cell) {
				if s2 == st {
					continue
				}
				var fn2 *ssa.Function
				for _, d := range an.Defs(s2.Val) {
					if m2, ok := d.(*ssa.MakeClosure); ok {
						fn2, _ = m2.Fn.(*ssa.Function)
					}
				}
				if fn2 == nil || reachesRoot(fn2) {
					return ""
				}
				others++
			}
			if others == 0 {
				return ""
			}
			// every call through the cell is preceded, in its function, by such a store
			calls := 0
			for _, ld := range an.CellLoads(cell) {
				for _, r := range an.Referrers(ld) {
					ci, ok := r.(ssa.CallInstruction)
					if !ok || ci.Common().Value != ld {
						continue
					}
					calls++
					swapped := false
					for _, s2 := range an.CellStores(cell) {
						if s2 != st && s2.Parent() == r.Parent() && an.Before(s2, r) {
							swapped = true
						}
					}
					if !swapped {
						return ""
					}
				}
			}
			if calls > 0 {
				return "run through a handler variable that is switched to the drain function before the first call (once by control flow)"
			}
		}
	}
	return ""
}
