package rules

import (
	"go/constant"
	"go/token"
	"go/types"
	"os"
	"sort"
	"strings"
	"text/template/parse"

	"golang.org/x/tools/go/ssa"

	"verif/internal/an"
)

// Structural necessary conditions of C19 (regeneration keeps what the user wrote) from the small-slip round.
func c19Small(c *Ctx) {
	// (1) the lookup of a previous declaration scans all declarations
	c.R.Rule("lookup-scans-all", "Rewriter.GetPrevDecl: every return inside its loops returns a declaration (non-nil); a non-matching declaration is skipped, it does not end the search", 1)
	if fn := c.W.Func(modPath("internal/rewrite"), "*Rewriter.GetPrevDecl"); fn == nil || len(fn.Blocks) == 0 {
		c.R.Fail("unresolved anchor: rewrite.(*Rewriter).GetPrevDecl")
	} else {
		fn, _ = prevDeclFinder(fn, map[string]ssa.Value{})
		inLoop := map[*ssa.BasicBlock]bool{}
		for _, l := range an.Loops(fn) {
			for b := range l.Blocks {
				inLoop[b] = true
			}
		}
		var bad ssa.Instruction
		n := 0
		for _, r := range an.Returns(fn) {
			// a return "inside" a loop is a block that is not in the natural loop (it leaves it) but is reached only from loop blocks
			fromLoop := false
			for _, p := range r.Block().Preds {
				if inLoop[p] {
					fromLoop = true
				}
			}
			if !fromLoop && !inLoop[r.Block()] {
				continue
			}
			// the loop's normal exit (header → after) is not "inside": it is the final `return nil`
			exitOfHeader := false
			for _, l := range an.Loops(fn) {
				for _, e := range l.Exits {
					if e.To == r.Block() && e.From == l.Header {
						exitOfHeader = true
					}
				}
			}
			if exitOfHeader {
				continue
			}
			n++
			if len(r.Results) == 1 && an.IsNilConst(an.Strip(r.Results[0])) {
				bad = r
			}
		}
		pos := c.pos(fn.Pos())
		if bad != nil {
			pos = c.ipos(bad)
		}
		c.R.Check(bad == nil && n >= 1, "GetPrevDecl/returns-in-loop", pos, "only a found declaration ends the search",
			"GetPrevDecl gives up at the first declaration that does not match: when two resolver types have a method of the same name only the first in source order is ever found, the other's implementation is replaced by the panic stub on regeneration")
	}

	// (2) follow-schema: a field's resolver goes to the file of the field's own source
	c.R.Rule("resolver-file-from-field", "resolvergen.generatePerSchema: inside the loop over an object's fields the target file is computed (gqlToResolverName) from the field definition's source position; outside it from the object definition's", 2)
	if fn := c.W.Func(modPath("plugin/resolvergen"), "*Plugin.generatePerSchema"); fn == nil || len(fn.Blocks) == 0 {
		c.R.Fail("unresolved anchor: resolvergen.(*Plugin).generatePerSchema")
	} else {
		depth := map[*ssa.BasicBlock]int{}
		for _, l := range an.Loops(fn) {
			for b := range l.Blocks {
				depth[b]++
			}
		}
		n := 0
		for _, call := range an.CallsIn(fn, func(_ ssa.CallInstruction, ci an.CalleeInfo) bool {
			return ci.Static != nil && ci.Static.Name() == "gqlToResolverName"
		}) {
			if call.Parent() != fn || len(call.Common().Args) < 2 {
				continue
			}
			n++
			base := positionBase(call.Common().Args[1])
			d := depth[call.Block()]
			want := "Definition"
			if d >= 2 {
				want = "FieldDefinition"
			}
			c.R.Check(base == want, sprintf("generatePerSchema/file-of-%s", map[bool]string{true: "field", false: "object"}[d >= 2]), c.ipos(call),
				"file name from the "+want+"'s source", "the file a "+map[bool]string{true: "field's resolver", false: "type's accessor"}[d >= 2]+" is written to is computed from the source position of "+map[string]string{"": "something else", "Definition": "the object type", "FieldDefinition": "a field"}[base]+": with `extend type` in another schema file the resolver moves to another file on regeneration (and the old file keeps a stale copy)")
		}
		if n < 2 {
			c.R.Fail("resolver-file-from-field: %d gqlToResolverName calls", n)
		}
	}

	// (3) preserved text is emitted unconditionally
	c.R.Rule("preserved-text-unconditional", "resolver.gotpl: the actions that emit the previous run's comment (prefixLines) and implementation are not inside any {{if}} that mentions a configuration option ($.…): no option suppresses what the user wrote", 2)
	if tp := c.W.TPkg(modPath("plugin/resolvergen")); tp == nil || len(tp.GoFiles) == 0 {
		c.R.Fail("resolvergen not loaded")
	} else {
		dir := tp.GoFiles[0][:strings.LastIndex(tp.GoFiles[0], "/")]
		b, err := os.ReadFile(dir + "/resolver.gotpl")
		if err != nil {
			c.R.Fail("resolver.gotpl: %v", err)
		} else {
			tr := parse.New("resolver.gotpl")
			tr.Mode = parse.SkipFuncCheck
			trees := map[string]*parse.Tree{}
			if _, err := tr.Parse(string(b), "{{", "}}", trees); err != nil {
				c.R.Fail("resolver.gotpl does not parse: %v", err)
			} else {
				found := map[string]int{}
				for _, t := range trees {
					if t.Root == nil {
						continue
					}
					var walk func(n parse.Node, conds []string)
					walk = func(n parse.Node, conds []string) {
						switch x := n.(type) {
						case *parse.ListNode:
							if x == nil {
								return
							}
							for _, ch := range x.Nodes {
								walk(ch, conds)
							}
						case *parse.IfNode:
							cs := append(append([]string{}, conds...), x.Pipe.String())
							walk(x.List, cs)
							walk(x.ElseList, cs)
						case *parse.WithNode:
							walk(x.List, conds)
							walk(x.ElseList, conds)
						case *parse.RangeNode:
							walk(x.List, conds)
							walk(x.ElseList, conds)
						case *parse.ActionNode:
							s := x.String()
							what := ""
							switch {
							case strings.Contains(s, "prefixLines"):
								what = "comment"
							case strings.Contains(s, ".Implementation"):
								what = "implementation"
							}
							if what == "" {
								return
							}
							found[what]++
							bad := ""
							for _, cnd := range conds {
								if strings.Contains(cnd, "$.") || strings.Contains(cnd, "Omit") {
									bad = cnd
								}
							}
							c.R.Check(bad == "", sprintf("resolver.gotpl/%s#%d", what, found[what]), "plugin/resolvergen/resolver.gotpl", "emitted whenever present",
								"the preserved "+what+" is emitted only under the option test {{if "+bad+"}}: with that option the user's "+what+" is dropped on regeneration")
						}
					}
					walk(t.Root, nil)
				}
				if found["comment"] == 0 || found["implementation"] == 0 {
					c.R.Fail("preserved-text-unconditional: comment actions %d, implementation actions %d", found["comment"], found["implementation"])
				}
			}
		}
	}

	// (4) named results keep their positions
	c.R.Rule("named-results-positional", "codegen.(*Field).ShortResolverSignature: the name printed for the value result is read from Results.List[0], the name printed for the error result from Results.List[1]", 0)
	if fn := c.W.Func(modPath("codegen"), "*Field.ShortResolverSignature"); fn == nil || len(fn.Blocks) == 0 {
		c.R.Fail("unresolved anchor: codegen.(*Field).ShortResolverSignature")
	} else {
		n := 0
		for _, call := range an.CallsIn(fn, func(_ ssa.CallInstruction, ci an.CalleeInfo) bool { return ci.FullName() == "fmt.Sprintf" }) {
			args := call.Common().Args
			f, ok := an.ConstString(args[0])
			if !ok || !strings.Contains(f, "error)") || strings.Count(f, "%s") != 3 {
				continue
			}
			// the variadic slice: Slice(Alloc [3]any); elements stored through IndexAddr
			var arr ssa.Value
			if sl, ok := args[1].(*ssa.Slice); ok {
				arr = sl.X
			}
			if arr == nil {
				continue
			}
			for _, r := range an.Referrers(arr) {
				ia, ok := r.(*ssa.IndexAddr)
				if !ok {
					continue
				}
				j, isC := an.ConstInt(ia.Index)
				if !isC || j == 1 {
					continue
				}
				for _, r2 := range an.Referrers(ia) {
					st, ok := r2.(*ssa.Store)
					if !ok {
						continue
					}
					n++
					want := int64(0)
					if j == 2 {
						want = 1
					}
					ks := listIndices(st.Val, 0, map[ssa.Value]bool{})
					okk := len(ks) > 0
					for _, k := range ks {
						if k != want {
							okk = false
						}
					}
					c.R.Check(okk, sprintf("ShortResolverSignature/result-name#%d", j), c.ipos(call), sprintf("read from Results.List[%d]", want),
						sprintf("the name printed at result position %d is read from Results.List%v: a resolver with named results `(res T, err error)` is regenerated with the names swapped or duplicated, and its preserved body no longer compiles", want, ks))
				}
			}
		}
		if n == 0 {
			// array form: `named[i] = ft.Results.List[i].Names[0].Name` — the slot and the result position are the same index
			for _, b := range fn.Blocks {
				for _, in := range b.Instrs {
					st, ok := in.(*ssa.Store)
					if !ok {
						continue
					}
					ia, ok := st.Addr.(*ssa.IndexAddr)
					if !ok {
						continue
					}
					if _, isArr := ia.X.Type().Underlying().(*types.Pointer); !isArr {
						continue
					}
					li := listIndexValue(st.Val, 0, map[ssa.Value]bool{})
					if li == nil {
						continue
					}
					n++
					same := li == ia.Index || an.SameExpr(li, ia.Index)
					c.R.Check(same, sprintf("ShortResolverSignature/result-name-slot#%d", n), c.ipos(in), "slot i is filled from Results.List[i]",
						"a result-name slot is filled from a different position of the previous declaration's result list: named results are regenerated swapped or duplicated, and the preserved body no longer compiles")
				}
			}
		}
		if n == 0 {
			c.R.Note("ShortResolverSignature/result-names", c.pos(fn.Pos()), "the way result names are carried over was not recognised (neither the Sprintf form nor the array form); not decided")
		}
	}

	// (5) blank and dot imports are never "unused"
	c.R.Rule("special-imports-kept", "imports.getUnusedImports: the test that classifies an import as unused excludes both the blank name \"_\" and the dot name \".\" (neither can appear as a selector)", 1)
	if fn := c.W.Func(modPath("internal/imports"), "getUnusedImports"); fn == nil || len(fn.Blocks) == 0 {
		c.R.Fail("unresolved anchor: imports.getUnusedImports")
	} else {
		got := map[string]bool{}
		for _, f := range an.WithClosures(fn) {
			for _, b := range f.Blocks {
				for _, in := range b.Instrs {
					bo, ok := in.(*ssa.BinOp)
					if !ok || bo.Op != token.NEQ && bo.Op != token.EQL {
						continue
					}
					for _, v := range []ssa.Value{bo.X, bo.Y} {
						if k, ok := v.(*ssa.Const); ok && k.Value != nil && k.Value.Kind() == constant.String {
							got[constant.StringVal(k.Value)] = true
						}
					}
				}
			}
		}
		var gl []string
		for k := range got {
			gl = append(gl, k)
		}
		sort.Strings(gl)
		c.R.Check(got["_"] && got["."], "getUnusedImports/special-names", c.pos(fn.Pos()), "both _ and . are excluded",
			"the unused-import filter no longer excludes "+map[bool]string{true: "the dot import", false: "the blank import"}[got["_"]]+": such an import in a user's resolver file is deleted on every regeneration and the preserved code stops compiling")
	}
}

// positionBase: for a value X.Position.Src.Name, the name of X's struct type ("Definition", "FieldDefinition"), else "".
func positionBase(v ssa.Value) string {
	cur := v
	for i := 0; i < 8; i++ {
		fa, ok := loadAddr(an.Strip(cur)).(*ssa.FieldAddr)
		if !ok {
			return ""
		}
		if fieldNameOf(fa) == "Position" {
			if nt := namedStruct(fa.X.Type()); nt != nil {
				return nt.Obj().Name()
			}
			return ""
		}
		cur = fa.X
	}
	return ""
}

// listIndices: the constant indices k of the `….List[k]` element reads a value is computed from (through phis and loads).
func listIndices(v ssa.Value, depth int, seen map[ssa.Value]bool) []int64 {
	if v == nil || seen[v] || depth > 12 {
		return nil
	}
	seen[v] = true
	var out []int64
	switch x := v.(type) {
	case *ssa.Phi:
		for _, e := range x.Edges {
			out = append(out, listIndices(e, depth+1, seen)...)
		}
	case *ssa.MakeInterface:
		return listIndices(x.X, depth+1, seen)
	case *ssa.ChangeType:
		return listIndices(x.X, depth+1, seen)
	case *ssa.UnOp:
		return listIndices(x.X, depth+1, seen)
	case *ssa.FieldAddr:
		return listIndices(x.X, depth+1, seen)
	case *ssa.IndexAddr:
		if fa, ok := loadAddr(x.X).(*ssa.FieldAddr); ok && fieldNameOf(fa) == "List" {
			if k, isC := an.ConstInt(x.Index); isC {
				return []int64{k}
			}
		}
		return listIndices(x.X, depth+1, seen)
	}
	return out
}

// listIndexValue: the index value i of the `….List[i]` element read a value is computed from (nil if none or several).
func listIndexValue(v ssa.Value, depth int, seen map[ssa.Value]bool) ssa.Value {
	if v == nil || seen[v] || depth > 12 {
		return nil
	}
	seen[v] = true
	switch x := v.(type) {
	case *ssa.UnOp:
		return listIndexValue(x.X, depth+1, seen)
	case *ssa.FieldAddr:
		return listIndexValue(x.X, depth+1, seen)
	case *ssa.IndexAddr:
		if fa, ok := loadAddr(x.X).(*ssa.FieldAddr); ok && fieldNameOf(fa) == "List" {
			return x.Index
		}
		return listIndexValue(x.X, depth+1, seen)
	}
	return nil
}
