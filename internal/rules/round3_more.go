package rules

import (
	"go/token"
	"go/types"
	"reflect"
	"strings"

	"golang.org/x/tools/go/ssa"

	"verif/internal/an"
)

// More rules from the third small-slip round: some generic (a configured field is read, a map range that builds a slice is
// sorted, a field written under a mutex is read under it), some anchored on one specification table.

// configFieldsRead: a struct field of the runtime that some function assigns is also read by some function of the module.
// A setter that stores a limit nobody reads (the constant was passed instead) is a configuration silently ignored.
var configFieldsReviewed = map[string]string{
	"graphql/executor.Executor.disableSuggestion": "SetDisableSuggestion applies the setting itself when it is called (it swaps the validator rule once, see C03/no-global-rule-mutation); the field only records what was asked",
}

func configFieldsRead(c *Ctx, rule string, pkgs ...string) {
	c.R.Rule(rule, "every unexported field of a struct declared in "+strings.Join(shortPkgs(pkgs), ", ")+" that is assigned outside a composite literal is read somewhere in the module (a stored setting nobody reads is a setting ignored)", 10)
	type fkey struct {
		t *types.Named
		f int
	}
	stored := map[fkey]ssa.Instruction{}
	read := map[fkey]bool{}
	inP := inPkgs(pkgs)
	namedOf := func(t types.Type) *types.Named {
		if p, ok := t.Underlying().(*types.Pointer); ok {
			t = p.Elem()
		}
		n, _ := t.(*types.Named)
		if n == nil || n.Obj().Pkg() == nil || !inP(n.Obj().Pkg().Path()) {
			return nil
		}
		if _, ok := n.Underlying().(*types.Struct); !ok {
			return nil
		}
		return n.Origin()
	}
	for _, fn := range c.moduleFuncs(nil) {
		for _, b := range fn.Blocks {
			for _, in := range b.Instrs {
				switch x := in.(type) {
				case *ssa.FieldAddr:
					n := namedOf(x.X.Type())
					if n == nil {
						continue
					}
					k := fkey{n, x.Field}
					for _, r := range an.Referrers(x) {
						switch y := r.(type) {
						case *ssa.Store:
							if y.Addr == ssa.Value(x) {
								// a store into a freshly allocated struct is a literal
								if a, ok := x.X.(*ssa.Alloc); ok && a.Comment == "complit" {
									continue
								}
								if _, dup := stored[k]; !dup {
									stored[k] = y
								}
							} else {
								read[k] = true // address escapes
							}
						case *ssa.DebugRef:
						default:
							read[k] = true
						}
					}
				case *ssa.Field:
					if n := namedOf(x.X.Type()); n != nil {
						read[fkey{n, x.Field}] = true
					}
				}
			}
		}
	}
	n := 0
	for k, at := range stored {
		st := k.t.Underlying().(*types.Struct)
		f := st.Field(k.f)
		if f.Exported() || f.Name() == "_" {
			continue
		}
		n++
		key := shortPkgPath(k.t.Obj().Pkg().Path()) + "." + k.t.Obj().Name() + "." + f.Name()
		if why, ok := configFieldsReviewed[key]; ok && !read[k] {
			c.R.OK(key, c.ipos(at), "reviewed: "+why)
			continue
		}
		c.R.Check(read[k], key, c.ipos(at), "read somewhere in the module", "the field "+key+" is assigned here but never read anywhere: what it configures is silently ignored")
	}
	if n < 10 {
		c.R.Fail("%s: only %d assigned unexported fields found", rule, n)
	}
}

// rawParamsJSONNames: the request members are the ones GraphQL-over-HTTP names.
func rawParamsJSONNames(c *Ctx) {
	c.R.Rule("rawparams-json-names", "graphql.RawParams decodes the request members under the names of the GraphQL-over-HTTP specification: query, operationName, variables, extensions", 4)
	tp := c.W.TPkg(pkgGraphql)
	if tp == nil || tp.Types == nil {
		c.R.Fail("unresolved anchor: package graphql")
		return
	}
	obj := tp.Types.Scope().Lookup("RawParams")
	if obj == nil {
		c.R.Fail("unresolved anchor: graphql.RawParams")
		return
	}
	st, ok := obj.Type().Underlying().(*types.Struct)
	if !ok {
		c.R.Fail("unresolved anchor: graphql.RawParams is not a struct")
		return
	}
	want := map[string]string{"Query": "query", "OperationName": "operationName", "Variables": "variables", "Extensions": "extensions"}
	for i := 0; i < st.NumFields(); i++ {
		w, ok := want[st.Field(i).Name()]
		if !ok {
			continue
		}
		tag := reflect.StructTag(st.Tag(i)).Get("json")
		name := strings.Split(tag, ",")[0]
		c.R.Check(name == w, "RawParams."+st.Field(i).Name(), c.pos(st.Field(i).Pos()), "json:\""+w+"\"", "RawParams."+st.Field(i).Name()+" is decoded from the member \""+name+"\", the specification calls it \""+w+"\": every JSON transport silently drops what the client sent under that name")
		delete(want, st.Field(i).Name())
	}
	for f := range want {
		c.R.Bad("RawParams."+f, "-", "field not found")
	}
}

// variableValuesOfSelectedOperation: variables are coerced against the operation that will run.
func variableValuesOfSelectedOperation(c *Ctx) {
	c.R.Rule("variables-of-selected-operation", "executor: the operation handed to validator.VariableValues is the value held in the operation context's Operation field (the operation selected by name), not another element of the document", 1)
	n := 0
	for _, fn := range c.moduleFuncs(func(p string) bool { return p == pkgExecutor }) {
		for _, call := range an.CallsIn(fn, func(_ ssa.CallInstruction, ci an.CalleeInfo) bool {
			return strings.HasSuffix(ci.FullName(), "validator.VariableValues")
		}) {
			n++
			arg := an.Strip(call.Common().Args[1])
			ok := false
			if fa, isF := loadAddr(arg).(*ssa.FieldAddr); isF && fieldNameOf(fa) == "Operation" && strings.HasSuffix(fa.X.Type().String(), "OperationContext") {
				ok = true
			}
			// or the very value that was stored into .Operation
			for _, b := range fn.Blocks {
				for _, in := range b.Instrs {
					if st, isS := in.(*ssa.Store); isS {
						if fa, isF := st.Addr.(*ssa.FieldAddr); isF && fieldNameOf(fa) == "Operation" && an.Strip(st.Val) == arg {
							ok = true
						}
					}
				}
			}
			c.R.Check(ok, c.fnKey(fn)+"/VariableValues", c.ipos(call), "the selected operation", "variables are coerced against an operation other than the selected one: with operationName naming a later operation its variables are dropped or validated against the wrong declarations")
		}
	}
	if n == 0 {
		c.R.Fail("unresolved anchor: no call of validator.VariableValues in package executor")
	}
}

// execInsideOperationMiddleware: the executable schema is entered by the innermost link of the operation interceptor chain.
func execInsideOperationMiddleware(c *Ctx) {
	c.R.Rule("exec-inside-operation-middleware", "executor: ExecutableSchema.Exec is invoked only inside the function literal handed to the operation interceptor chain (so that every operation interceptor runs before the schema is entered and sees what it returns)", 1)
	n := 0
	for _, fn := range c.moduleFuncs(func(p string) bool { return p == pkgExecutor }) {
		for _, b := range fn.Blocks {
			for _, in := range b.Instrs {
				call, ok := in.(*ssa.Call)
				if !ok || !call.Call.IsInvoke() || call.Call.Method.Name() != "Exec" || !strings.HasSuffix(call.Call.Value.Type().String(), "ExecutableSchema") {
					continue
				}
				n++
				good := false
				for par := range allFuncsOfPkg(fn.Pkg) {
					for _, b2 := range par.Blocks {
						for _, i2 := range b2.Instrs {
							c2, ok := i2.(*ssa.Call)
							if !ok {
								continue
							}
							isChain := false
							if sc := c2.Call.StaticCallee(); sc != nil && strings.Contains(strings.ToLower(sc.Name()), "operationmiddleware") {
								isChain = true
							}
							if fa, isF := loadAddr(an.Strip(c2.Call.Value)).(*ssa.FieldAddr); isF && strings.Contains(strings.ToLower(fieldNameOf(fa)), "operationmiddleware") {
								isChain = true
							}
							if !isChain {
								continue
							}
							for _, a := range c2.Call.Args {
								mc, ok := an.Strip(a).(*ssa.MakeClosure)
								if !ok {
									continue
								}
								mf, _ := mc.Fn.(*ssa.Function)
								if mf == fn || (mf != nil && mf.Synthetic != "" && mf.Name() == fn.Name()+"$bound") {
									good = true // the literal itself, or the method value d.exec of a small dispatch type
								}
							}
						}
					}
				}
				c.R.Check(good, c.fnKey(topFn(fn))+"/Exec", c.ipos(in), "inside the literal handed to the operation interceptor chain", "the executable schema is entered outside the operation interceptor chain: operation interceptors no longer run before (or around) the execution they are meant to gate")
			}
		}
	}
	if n == 0 {
		c.R.Fail("unresolved anchor: no invocation of ExecutableSchema.Exec in package executor")
	}
}

// mapRangeSorted: a function that ranges over a map and collects into a slice sorts what it collected.
func mapRangeSorted(c *Ctx, rule string, pkgs ...string) {
	c.R.Rule(rule, "in "+strings.Join(shortPkgs(pkgs), ", ")+": a function that appends to a slice inside a range over a map also sorts (sort.*, slices.Sort*) — what it returns does not depend on map iteration order", 1)
	n := 0
	for _, fn := range c.moduleFuncs(inPkgs(pkgs)) {
		var rng ssa.Instruction
		for _, l := range an.Loops(fn) {
			isMapRange := false
			for b := range l.Blocks {
				for _, in := range b.Instrs {
					if nx, ok := in.(*ssa.Next); ok && !nx.IsString {
						if r, ok := nx.Iter.(*ssa.Range); ok {
							if _, isMap := r.X.Type().Underlying().(*types.Map); isMap {
								isMapRange = true
							}
						}
					}
				}
			}
			if !isMapRange {
				continue
			}
			for b := range l.Blocks {
				for _, in := range b.Instrs {
					if call, ok := in.(*ssa.Call); ok {
						if bi, ok := call.Call.Value.(*ssa.Builtin); ok && bi.Name() == "append" {
							rng = in
						}
					}
				}
			}
		}
		if rng == nil {
			continue
		}
		n++
		sorted := len(an.CallsIn(fn, func(_ ssa.CallInstruction, ci an.CalleeInfo) bool {
			f := ci.FullName()
			return strings.HasPrefix(f, "sort.") || strings.HasPrefix(f, "slices.Sort")
		})) > 0
		c.R.Check(sorted, c.fnKey(fn)+"/map-range-append", c.ipos(rng), "the function sorts", "a slice is filled in map iteration order and never sorted: two identical requests can be answered in different orders")
	}
	if n == 0 {
		c.R.Fail("%s: no map range that appends found", rule)
	}
}

// fieldLockConsistency: a read-modify-write of a mutex-guarded field happens under one critical section.  Where a field is
// stored with the struct's mutex held and the stored value is computed from a load of that same field (x.f = append(x.f, …),
// x.n = x.n + 1), that load holds the mutex too; otherwise two goroutines read the same old value and one update is lost.
func fieldLockConsistency(c *Ctx, rule string, pkgs ...string) {
	c.R.Rule(rule, "structs with a sync.Mutex in "+strings.Join(shortPkgs(pkgs), ", ")+": when a field is stored with a mutex held and the stored value is computed from a load of the same field, that load is made with the same mutex held (no lost update)", 1)
	n := 0
	for _, fn := range c.moduleFuncs(inPkgs(pkgs)) {
		var ls map[ssa.Instruction]map[string]bool
		for _, b := range fn.Blocks {
			for _, in := range b.Instrs {
				st, ok := in.(*ssa.Store)
				if !ok {
					continue
				}
				fa, ok := st.Addr.(*ssa.FieldAddr)
				if !ok {
					continue
				}
				if ls == nil {
					ls = an.Locksets(fn)
				}
				if len(ls[in]) == 0 {
					continue
				}
				// loads of the same field feeding the stored value
				var loads []*ssa.UnOp
				seen := map[ssa.Value]bool{}
				var walk func(v ssa.Value, d int)
				walk = func(v ssa.Value, d int) {
					if v == nil || d > 4 || seen[v] {
						return
					}
					seen[v] = true
					switch x := v.(type) {
					case *ssa.UnOp:
						if x.Op == token.MUL {
							if fa2, ok := x.X.(*ssa.FieldAddr); ok && fa2.Field == fa.Field && sameAccess(fa2.X, fa.X, 0) {
								loads = append(loads, x)
							}
							return
						}
						walk(x.X, d+1)
					case *ssa.Call:
						for _, a := range x.Call.Args {
							walk(a, d+1)
						}
					case *ssa.BinOp:
						walk(x.X, d+1)
						walk(x.Y, d+1)
					case *ssa.Convert:
						walk(x.X, d+1)
					case *ssa.Slice:
						walk(x.X, d+1)
					}
				}
				walk(st.Val, 0)
				for _, ld := range loads {
					n++
					same := false
					for k := range ls[in] {
						if ls[ld][k] {
							same = true
						}
					}
					_, path := mutexOwner(fa)
					if path == "" {
						path = fieldNameOf(fa)
					}
					c.R.Check(same, path+"@"+c.fnKey(fn), c.ipos(ld), "loaded and stored in one critical section", "the field is stored with a mutex held, but the old value it is computed from was loaded before the mutex was taken: two concurrent updates read the same old value and one of them is lost")
				}
			}
		}
	}
	if n == 0 {
		c.R.Fail("%s: no read-modify-write of a field under a mutex found", rule)
	}
}

// mutexOwner walks a field address outwards to the nearest enclosing struct that declares a sync.Mutex / RWMutex field and
// returns that struct's address and the path "pkg.Type.a.b" of the accessed field.
func mutexOwner(fa *ssa.FieldAddr) (ssa.Value, string) {
	names := []string{fieldNameOf(fa)}
	cur := fa
	for depth := 0; depth < 4; depth++ {
		pt, ok := cur.X.Type().Underlying().(*types.Pointer)
		if !ok {
			return nil, ""
		}
		st, ok := pt.Elem().Underlying().(*types.Struct)
		if !ok {
			return nil, ""
		}
		hasMu := false
		for i := 0; i < st.NumFields(); i++ {
			if an.NamedIs(st.Field(i).Type(), "sync", "Mutex") || an.NamedIs(st.Field(i).Type(), "sync", "RWMutex") {
				hasMu = true
			}
		}
		if hasMu {
			if an.NamedIs(fa.Type().Underlying().(*types.Pointer).Elem(), "sync", "Mutex") || an.NamedIs(fa.Type().Underlying().(*types.Pointer).Elem(), "sync", "RWMutex") {
				return nil, ""
			}
			name := pt.Elem().String()
			if n, ok := pt.Elem().(*types.Named); ok && n.Obj().Pkg() != nil {
				name = shortPkgPath(n.Obj().Pkg().Path()) + "." + n.Obj().Name()
			}
			for i, j := 0, len(names)-1; i < j; i, j = i+1, j-1 {
				names[i], names[j] = names[j], names[i]
			}
			return cur.X, name + "." + strings.Join(names, ".")
		}
		next, ok := cur.X.(*ssa.FieldAddr)
		if !ok {
			return nil, ""
		}
		names = append(names, fieldNameOf(next))
		cur = next
	}
	return nil, ""
}

// slotAndFunctionSameElement: `m.Values[x.i] = y.f(ctx)` — x and y are the same element.
func slotAndFunctionSameElement(c *Ctx) {
	c.R.Rule("slot-and-function-same-element", "methods of graphql.FieldSet: wherever a result is stored at Values[x.i] and computed by calling y.f, x and y are the same delayed entry", 1)
	if c.fn(pkgGraphql, "*FieldSet.Dispatch") == nil {
		return
	}
	n := 0
	for _, body := range c.moduleFuncs(func(p string) bool { return p == pkgGraphql }) {
		if top := topFn(body); top.Signature.Recv() == nil || !strings.HasSuffix(top.Signature.Recv().Type().String(), "graphql.FieldSet") {
			continue
		}
		for _, b := range body.Blocks {
			for _, in := range b.Instrs {
				st, ok := in.(*ssa.Store)
				if !ok {
					continue
				}
				ia, ok := st.Addr.(*ssa.IndexAddr)
				if !ok {
					continue
				}
				call, ok := an.Strip(st.Val).(*ssa.Call)
				if !ok {
					continue
				}
				ownerOf := func(v ssa.Value, field string) ssa.Value {
					v = an.Strip(v)
					if f, ok := v.(*ssa.Field); ok {
						if s, ok := f.X.Type().Underlying().(*types.Struct); ok && s.Field(f.Field).Name() == field {
							return f.X
						}
					}
					if fa, ok := loadAddr(v).(*ssa.FieldAddr); ok && fieldNameOf(fa) == field {
						return fa.X
					}
					return nil
				}
				xi := ownerOf(ia.Index, "i")
				yf := ownerOf(call.Call.Value, "f")
				if xi == nil || yf == nil {
					continue
				}
				n++
				c.R.Check(sameAccess(xi, yf, 0), c.fnKey(body)+"/store", c.ipos(in), "slot and function of the same entry", "the result of one delayed entry's function is stored in another entry's slot: one field's value appears under another field's key and a resolver is never called")
			}
		}
	}
	if n < 1 {
		c.R.Fail("slot-and-function-same-element: only %d stores of the form Values[x.i] = y.f(ctx) found in the methods of FieldSet", n)
	}
}

// idMarshalersQuote: the ID scalar serialises as a JSON string whatever the Go type behind it.
func idMarshalersQuote(c *Ctx) {
	c.R.Rule("id-marshalers-quote", "graphql.MarshalID, MarshalIntID, MarshalUintID write through writeQuotedString / MarshalString (the ID scalar is serialised as a string)", 3)
	for _, name := range []string{"MarshalID", "MarshalIntID", "MarshalUintID"} {
		fn := c.fn(pkgGraphql, name)
		if fn == nil {
			continue
		}
		quoted, raw := false, false
		for _, body := range an.WithClosures(fn) {
			for _, call := range an.CallsIn(body, func(ssa.CallInstruction, an.CalleeInfo) bool { return true }) {
				switch f := an.CalleeOf(call).FullName(); {
				case f == pkgGraphql+".writeQuotedString" || f == pkgGraphql+".MarshalString" || f == "strconv.Quote":
					quoted = true
				case f == "io.WriteString" || strings.HasSuffix(f, ".Write") || f == "fmt.Fprintf" || f == "fmt.Fprint":
					raw = true
				}
			}
		}
		c.R.Check(quoted && !raw, name, c.pos(fn.Pos()), "written as a quoted string", name+" writes the identifier without quotes: an ID arrives as a JSON number, which the matching unmarshaler (and every GraphQL client) does not take for an ID")
	}
}

// errcodeSetOnReturnedError: the error that gets a code is the error that is returned.
func errcodeSetOnReturnedError(c *Ctx) {
	c.R.Rule("errcode-on-returned-error", "executor: every errcode.Set(e, …) marks the very error object that the function then returns in its list (same value up to interface conversion / type assertion, or an element of the returned list)", 3)
	root := func(v ssa.Value) ssa.Value {
		for i := 0; i < 6; i++ {
			v = an.Strip(v)
			switch x := v.(type) {
			case *ssa.MakeInterface:
				v = x.X
			case *ssa.ChangeInterface:
				v = x.X
			case *ssa.TypeAssert:
				v = x.X
			case *ssa.Extract:
				if ta, ok := x.Tuple.(*ssa.TypeAssert); ok && x.Index == 0 {
					v = ta.X
				} else {
					return v
				}
			default:
				return v
			}
		}
		return v
	}
	n := 0
	for _, fn := range c.moduleFuncs(func(p string) bool { return p == pkgExecutor }) {
		for _, call := range an.CallsIn(fn, func(_ ssa.CallInstruction, ci an.CalleeInfo) bool {
			return strings.HasSuffix(ci.FullName(), "errcode.Set")
		}) {
			if call.Parent() != fn {
				continue
			}
			n++
			arg := root(call.Common().Args[0])
			good := false
			for _, r := range an.Returns(fn) {
				if !an.CanReach(call, r) {
					continue
				}
				for _, res := range r.Results {
					if !strings.HasSuffix(res.Type().String(), "gqlerror.List") {
						continue
					}
					// elements stored into the list's backing array, or the list the element was taken from
					res = an.Strip(res)
					if sl, ok := res.(*ssa.Slice); ok {
						for _, ref := range an.Referrers(sl.X) {
							if ia, ok := ref.(*ssa.IndexAddr); ok {
								for _, r2 := range an.Referrers(ia) {
									if st, ok := r2.(*ssa.Store); ok && root(st.Val) == arg {
										good = true
									}
								}
							}
						}
					}
					if u, ok := arg.(*ssa.UnOp); ok && u.Op == token.MUL {
						if ia, ok := u.X.(*ssa.IndexAddr); ok && sameAccess(ia.X, res, 0) {
							good = true
						}
					}
					if ex, ok := arg.(*ssa.Extract); ok {
						if nx, ok := ex.Tuple.(*ssa.Next); ok {
							if rg, ok := nx.Iter.(*ssa.Range); ok && sameAccess(rg.X, res, 0) {
								good = true
							}
						}
					}
				}
			}
			c.R.Check(good, c.fnKey(fn)+"/errcode.Set", c.ipos(call), "marks the returned error", "errcode.Set marks an error value that is not the one returned to the transport: the returned error has no code, so the transport answers 200 where the failure calls for 422/400")
		}
	}
	if n < 3 {
		c.R.Fail("errcode-on-returned-error: only %d errcode.Set calls found in package executor", n)
	}
}

// formBodiesQueryUnescaped: application/x-www-form-urlencoded bodies are decoded with the form rules ('+' is a space).
func formBodiesQueryUnescaped(c *Ctx) {
	c.R.Rule("form-bodies-query-unescaped", "the url-encoded form transport decodes with url.QueryUnescape / url.ParseQuery, never url.PathUnescape (in a form body '+' encodes a space)", 1)
	n := 0
	// the transport's Do and what it calls inside the package
	scope := map[*ssa.Function]bool{}
	if do := c.W.Func(pkgTransport, "UrlEncodedForm.Do"); do != nil {
		var add func(f *ssa.Function, d int)
		add = func(f *ssa.Function, d int) {
			if f == nil || scope[f] || d > 4 {
				return
			}
			scope[f] = true
			for _, cl := range an.WithClosures(f) {
				scope[cl] = true
				for _, call := range an.CallsIn(cl, func(_ ssa.CallInstruction, ci an.CalleeInfo) bool {
					return ci.Static != nil && ci.Static.Pkg == f.Pkg
				}) {
					add(call.Common().StaticCallee(), d+1)
				}
			}
		}
		add(do, 0)
	}
	for _, fn := range transportFuncs(c) {
		if !scope[fn] {
			continue
		}
		for _, call := range an.CallsIn(fn, func(_ ssa.CallInstruction, ci an.CalleeInfo) bool {
			return strings.HasPrefix(ci.FullName(), "net/url.") && strings.Contains(ci.FullName(), "nescape")
		}) {
			n++
			c.R.Check(an.CalleeOf(call).FullName() == "net/url.QueryUnescape", c.fnKey(fn)+"/unescape", c.ipos(call), "url.QueryUnescape", "a form body is decoded with "+an.CalleeOf(call).FullName()+": `query=%7B+name+%7D` keeps its '+' signs and no longer parses")
		}
	}
	if n == 0 {
		c.R.Fail("unresolved anchor: no url unescape call in the url-encoded form transport")
	}
}

// uploadFieldsFromPart: an Upload describes the part it was read from.
func uploadFieldsFromPart(c *Ctx) {
	c.R.Rule("upload-fields-from-part", "multipart form transport: Upload.Filename and Upload.ContentType are computed from the multipart.Part the file was read from (part.FileName(), part.Header), not from the request", 2)
	n := 0
	for _, fn := range transportFuncs(c) {
		for _, b := range fn.Blocks {
			for _, in := range b.Instrs {
				st, ok := in.(*ssa.Store)
				if !ok {
					continue
				}
				fa, ok := st.Addr.(*ssa.FieldAddr)
				if !ok || !an.NamedIs(fa.X.Type().Underlying().(*types.Pointer).Elem(), pkgGraphql, "Upload") {
					continue
				}
				name := fieldNameOf(fa)
				if name != "Filename" && name != "ContentType" {
					continue
				}
				n++
				c.R.Check(derivesFromPart(st.Val, 0, map[ssa.Value]bool{}), c.fnKey(topFn(fn))+"/Upload."+name, c.ipos(in), "taken from the part", "Upload."+name+" does not come from the part being read (it comes from the request): every file is reported with the request's own header value")
			}
		}
	}
	if n < 2 {
		c.R.Fail("upload-fields-from-part: only %d stores to Upload.Filename/ContentType found", n)
	}
}

func derivesFromPart(v ssa.Value, depth int, seen map[ssa.Value]bool) bool {
	if v == nil || depth > 8 || seen[v] {
		return false
	}
	seen[v] = true
	v = an.Strip(v)
	if strings.HasSuffix(v.Type().String(), "multipart.Part") {
		return true
	}
	switch x := v.(type) {
	case *ssa.Call:
		for _, a := range x.Call.Args {
			if derivesFromPart(a, depth+1, seen) {
				return true
			}
		}
		if x.Call.IsInvoke() {
			return derivesFromPart(x.Call.Value, depth+1, seen)
		}
	case *ssa.UnOp:
		if x.Op == token.MUL {
			if a, ok := x.X.(*ssa.Alloc); ok {
				for _, st := range an.CellStores(a) {
					if derivesFromPart(st.Val, depth+1, seen) {
						return true
					}
				}
				return false
			}
		}
		return derivesFromPart(x.X, depth+1, seen)
	case *ssa.FieldAddr:
		if derivesFromPart(x.X, depth+1, seen) {
			return true
		}
		// a field of a small struct of the package: what every store to that field puts there
		if fn := x.Parent(); fn != nil && fn.Pkg != nil {
			any := false
			for _, m := range fn.Pkg.Members {
				mf, ok := m.(*ssa.Function)
				_ = mf
				_ = ok
			}
			for f2 := range allFuncsOfPkg(fn.Pkg) {
				for _, b := range f2.Blocks {
					for _, in := range b.Instrs {
						st, ok := in.(*ssa.Store)
						if !ok {
							continue
						}
						fa2, ok := st.Addr.(*ssa.FieldAddr)
						if !ok || fa2.Field != x.Field || !types.Identical(fa2.X.Type(), x.X.Type()) {
							continue
						}
						any = true
						if !derivesFromPart(st.Val, depth+1, seen) {
							return false
						}
					}
				}
			}
			return any
		}
		return false
	case *ssa.Field:
		return derivesFromPart(x.X, depth+1, seen)
	case *ssa.Phi:
		for _, e := range x.Edges {
			if derivesFromPart(e, depth+1, seen) {
				return true
			}
		}
	case *ssa.Parameter:
		// a helper's parameter: every call site must hand a part-derived value
		fn := x.Parent()
		idx := -1
		for i, p := range fn.Params {
			if p == x {
				idx = i
			}
		}
		any := false
		for _, ref := range an.Referrers(fn) {
			if cl, ok := ref.(ssa.CallInstruction); ok && cl.Common().StaticCallee() == fn && idx < len(cl.Common().Args) {
				any = true
				if !derivesFromPart(cl.Common().Args[idx], depth+1, seen) {
					return false
				}
			}
		}
		return any
	case *ssa.Convert:
		return derivesFromPart(x.X, depth+1, seen)
	case *ssa.ChangeType:
		return derivesFromPart(x.X, depth+1, seen)
	case *ssa.Extract:
		return derivesFromPart(x.Tuple, depth+1, seen)
	case *ssa.Lookup:
		return derivesFromPart(x.X, depth+1, seen)
	case *ssa.Index:
		return derivesFromPart(x.X, depth+1, seen)
	case *ssa.IndexAddr:
		return derivesFromPart(x.X, depth+1, seen)
	}
	return false
}

// seekBasePerWhence: io.SeekCurrent positions relative to the current offset, io.SeekEnd relative to the length.
func seekBasePerWhence(c *Ctx) {
	c.R.Rule("seek-base-per-whence", "bytesReader.Seek: the position computed for io.SeekCurrent depends on the reader's current offset and the one for io.SeekEnd on the length of the data (each together with the offset argument)", 0)
	fn := c.fn(pkgTransport, "*bytesReader.Seek")
	if fn == nil {
		return
	}
	var whence *ssa.Parameter
	for _, p := range fn.Params {
		if p.Name() == "whence" {
			whence = p
		}
	}
	if whence == nil {
		c.R.Fail("unresolved anchor: bytesReader.Seek has no parameter whence")
		return
	}
	// the value finally stored into r.i
	var stored ssa.Value
	for _, b := range fn.Blocks {
		for _, in := range b.Instrs {
			if st, ok := in.(*ssa.Store); ok {
				if fa, ok := st.Addr.(*ssa.FieldAddr); ok && fieldNameOf(fa) == "i" {
					stored = st.Val
				}
			}
		}
	}
	if stored == nil {
		c.R.Fail("unresolved anchor: bytesReader.Seek never stores the position")
		return
	}
	// per case: the value that reaches `stored` from the block entered on whence == k
	cases := map[int64]*ssa.BasicBlock{}
	for _, e := range an.CondEdges(fn) {
		if e.Fact.Op != token.EQL {
			continue
		}
		for _, pr := range [][2]ssa.Value{{e.Fact.X, e.Fact.Y}, {e.Fact.Y, e.Fact.X}} {
			if k, ok := an.ConstInt(pr[1]); ok && an.Strip(pr[0]) == ssa.Value(whence) {
				cases[k] = e.To
			}
		}
	}
	dependsOn := func(v ssa.Value, pred func(ssa.Value) bool) bool {
		seen := map[ssa.Value]bool{}
		var walk func(v ssa.Value, d int) bool
		walk = func(v ssa.Value, d int) bool {
			if v == nil || d > 8 || seen[v] {
				return false
			}
			seen[v] = true
			if pred(v) {
				return true
			}
			switch x := v.(type) {
			case *ssa.BinOp:
				return walk(x.X, d+1) || walk(x.Y, d+1)
			case *ssa.Convert:
				return walk(x.X, d+1)
			case *ssa.ChangeType:
				return walk(x.X, d+1)
			case *ssa.Call:
				for _, a := range x.Call.Args {
					if walk(a, d+1) {
						return true
					}
				}
			case *ssa.UnOp:
				return walk(x.X, d+1)
			}
			return false
		}
		return walk(v, 0)
	}
	isOffsetField := func(v ssa.Value) bool {
		fa, ok := v.(*ssa.FieldAddr)
		return ok && fieldNameOf(fa) == "i"
	}
	isLen := func(v ssa.Value) bool {
		call, ok := v.(*ssa.Call)
		if !ok {
			return false
		}
		b, ok := call.Call.Value.(*ssa.Builtin)
		return ok && b.Name() == "len"
	}
	// value on the edge from a case block: phi edge whose predecessor is (dominated by) the case block; or a per-case base phi
	valueFor := func(k int64) []ssa.Value {
		blk := cases[k]
		if blk == nil {
			return nil
		}
		var out []ssa.Value
		var collect func(v ssa.Value, d int)
		collect = func(v ssa.Value, d int) {
			if d > 4 {
				return
			}
			switch x := an.Strip(v).(type) {
			case *ssa.Phi:
				for i, e := range x.Edges {
					pred := x.Block().Preds[i]
					if pred == blk || an.Reach(blk, nil)[pred] && !reachesOtherCase(cases, k, pred) {
						out = append(out, e)
						collect(e, d+1)
					}
				}
			case *ssa.BinOp:
				out = append(out, x)
				collect(x.X, d+1)
				collect(x.Y, d+1)
			}
		}
		collect(stored, 0)
		return out
	}
	for _, spec := range []struct {
		k    int64
		name string
		pred func(ssa.Value) bool
		what string
	}{{1, "SeekCurrent", isOffsetField, "the current offset r.i"}, {2, "SeekEnd", isLen, "the length of the data"}} {
		vals := valueFor(spec.k)
		ok := false
		for _, v := range vals {
			if dependsOn(v, spec.pred) {
				ok = true
			}
		}
		if len(vals) == 0 {
			c.R.Note("Seek/"+spec.name, c.pos(fn.Pos()), "the position for io."+spec.name+" is not computed in a recognisable per-case form; not judged")
			continue
		}
		c.R.Check(ok, "Seek/"+spec.name, c.pos(fn.Pos()), "depends on "+spec.what, "the position for io."+spec.name+" does not depend on "+spec.what+": a resolver that seeks relative to it lands at the wrong byte of an in-memory upload")
	}
}

func reachesOtherCase(cases map[int64]*ssa.BasicBlock, k int64, pred *ssa.BasicBlock) bool {
	for k2, b := range cases {
		if k2 != k && (b == pred) {
			return true
		}
	}
	return false
}

// stopDeferredAtOnce: a helper goroutine started by a constructor is stopped by a deferred call registered before anything
// that can run user code.
func stopDeferredAtOnce(c *Ctx) {
	c.R.Rule("stop-deferred-at-once", "package transport: when a function calls a constructor of the package that starts a goroutine and defers a method of the constructed value, no interface method or function value is called between the two (a panic there would leave the goroutine running for ever)", 1)
	n := 0
	for _, fn := range transportFuncs(c) {
		if fn.Parent() != nil {
			continue
		}
		for _, b := range fn.Blocks {
			for _, in := range b.Instrs {
				call, ok := in.(*ssa.Call)
				if !ok {
					continue
				}
				sc := call.Call.StaticCallee()
				if sc == nil || sc.Pkg != fn.Pkg || len(an.GoSites(sc)) == 0 || sc.Signature.Results().Len() != 1 {
					continue
				}
				// the deferred method on the result
				var def *ssa.Defer
				for _, b2 := range fn.Blocks {
					for _, i2 := range b2.Instrs {
						if d, ok := i2.(*ssa.Defer); ok && len(d.Call.Args) > 0 && an.Strip(d.Call.Args[0]) == ssa.Value(call) {
							def = d
						}
					}
				}
				if def == nil {
					continue
				}
				n++
				var between ssa.Instruction
				for _, b2 := range fn.Blocks {
					for _, i2 := range b2.Instrs {
						c2, ok := i2.(*ssa.Call)
						if !ok || c2 == call {
							continue
						}
						if !(c2.Call.IsInvoke() || c2.Call.StaticCallee() == nil) {
							continue
						}
						if _, isB := c2.Call.Value.(*ssa.Builtin); isB {
							continue
						}
						if an.CanReach(call, i2) && an.CanReach(i2, def) && !an.CanReach(def, i2) {
							between = i2
						}
					}
				}
				c.R.Check(between == nil, c.fnKey(fn)+"/"+sc.Name(), c.ipos(def), "deferred right after the constructor", "an interface method is called between "+sc.Name()+" (which starts a goroutine) and the registration of the deferred stop: if it panics the goroutine is never stopped")
			}
		}
	}
	if n == 0 {
		c.R.Fail("stop-deferred-at-once: no constructor-with-goroutine / deferred stop pair found in package transport")
	}
}

// recoverResultGuarded: the error a user-supplied RecoverFunc returns may be nil.
func recoverResultGuarded(c *Ctx, rule string, pkgs ...string) {
	c.R.Rule(rule, "the error returned by OperationContext.Recover / a RecoverFunc is user-supplied: no method is invoked on it except on an edge where it was compared non-nil", 1)
	n := 0
	for _, fn := range c.moduleFuncs(inPkgs(pkgs)) {
		for _, call := range an.CallsIn(fn, func(_ ssa.CallInstruction, ci an.CalleeInfo) bool {
			f := ci.FullName()
			return strings.HasSuffix(f, "OperationContext).Recover") || strings.HasSuffix(f, ".recoverFunc")
		}) {
			v, ok := call.(ssa.Value)
			if !ok || !an.IsErrorType(v.Type()) {
				continue
			}
			n++
			var bad ssa.Instruction
			for _, ref := range an.Referrers(v) {
				ci, ok := ref.(ssa.CallInstruction)
				if !ok || !ci.Common().IsInvoke() || ci.Common().Value != v {
					continue
				}
				guarded := false
				for _, f := range an.Facts(ref) {
					if empty, k := an.EmptinessFact(f, func(x ssa.Value) bool { return an.Strip(x) == v }); k && !empty {
						guarded = true
					}
				}
				if !guarded {
					bad = ref
				}
			}
			key := c.fnKey(topFn(fn)) + "/recover-result"
			if bad != nil {
				c.R.Bad(key, c.ipos(bad), "a method is invoked on the error returned by the recover hook without a nil test: a RecoverFunc that returns nil makes gqlgen's own recover handler panic, and the process dies")
			} else {
				c.R.OK(key, c.ipos(call), "no unguarded method call on the hook's result")
			}
		}
	}
	if n == 0 {
		c.R.Fail("%s: no call of the recover hook found", rule)
	}
}

func allFuncsOfPkg(p *ssa.Package) map[*ssa.Function]bool {
	out := map[*ssa.Function]bool{}
	var add func(f *ssa.Function)
	add = func(f *ssa.Function) {
		if f == nil || out[f] {
			return
		}
		out[f] = true
		for _, a := range f.AnonFuncs {
			add(a)
		}
	}
	for _, m := range p.Members {
		switch x := m.(type) {
		case *ssa.Function:
			add(x)
		case *ssa.Type:
			for _, t := range []types.Type{x.Type(), types.NewPointer(x.Type())} {
				ms := p.Prog.MethodSets.MethodSet(t)
				for i := 0; i < ms.Len(); i++ {
					add(p.Prog.MethodValue(ms.At(i)))
				}
			}
		}
	}
	return out
}
