package rules

import (
	"go/token"
	"strings"

	gast "github.com/vektah/gqlparser/v2/ast"
	"golang.org/x/tools/go/ssa"

	"verif/internal/an"
)

// mutatorListsInOrderAndComplete: mutators run in registration order, and all of them.
func mutatorListsInOrderAndComplete(c *Ctx) {
	c.R.Rule("mutator-lists-in-order-and-complete", "executor: the lists of operation parameter / context mutators are filled by a loop that walks the registered extensions forwards, and the loops that call them leave early only with a non-empty error list", 2)
	n := 0
	if fn := c.W.Func(pkgExecutor, "processExtensions"); fn != nil {
		for _, l := range an.Loops(fn) {
			fills := false
			for b := range l.Blocks {
				for _, in := range b.Instrs {
					if st, ok := in.(*ssa.Store); ok {
						if fa, ok := st.Addr.(*ssa.FieldAddr); ok && strings.HasSuffix(fieldNameOf(fa), "Mutators") {
							fills = true
						}
					}
				}
			}
			if !fills {
				continue
			}
			n++
			// direction: the index phi of the header is stepped by +1 (range loops are)
			forward := false
			for _, in := range l.Header.Instrs {
				phi, ok := in.(*ssa.Phi)
				if !ok {
					break
				}
				for _, e := range phi.Edges {
					if bo, ok := e.(*ssa.BinOp); ok && bo.Op == token.ADD && bo.X == ssa.Value(phi) {
						if k, isC := an.ConstInt(bo.Y); isC && k == 1 {
							forward = true
						}
					}
				}
			}
			c.R.Check(forward, "processExtensions/mutators@"+loopKey(l), c.ipos(l.Header.Instrs[0]), "filled by a forward walk", "the mutator lists are filled back to front: mutators run in the reverse of their registration order (a guard registered after the extension it restricts now runs before it and is overridden)")
		}
	}
	for _, fn := range c.moduleFuncs(func(p string) bool { return p == pkgExecutor }) {
		for _, l := range an.Loops(fn) {
			calls := false
			for b := range l.Blocks {
				for _, in := range b.Instrs {
					if ci, ok := in.(ssa.CallInstruction); ok && ci.Common().IsInvoke() && strings.HasPrefix(ci.Common().Method.Name(), "MutateOperation") {
						calls = true
					}
				}
			}
			if !calls {
				continue
			}
			n++
			var bad ssa.Instruction
			for b := range l.Blocks {
				r, ok := b.Instrs[len(b.Instrs)-1].(*ssa.Return)
				if !ok {
					continue
				}
				last := an.ReturnedValue(r, len(r.Results)-1)
				if last == nil || an.IsNilConst(last) {
					bad = r
				}
			}
			// a return reached straight from the loop body counts too
			for _, e := range l.Exits {
				if e.From == l.Header {
					continue
				}
				if r, ok := e.To.Instrs[len(e.To.Instrs)-1].(*ssa.Return); ok && len(e.To.Preds) == 1 {
					last := an.ReturnedValue(r, len(r.Results)-1)
					if last == nil || an.IsNilConst(last) {
						bad = r
					}
				}
			}
			pos := c.ipos(l.Header.Instrs[0])
			if bad != nil {
				pos = c.ipos(bad)
			}
			c.R.Check(bad == nil, c.fnKey(fn)+"/mutator-loop@"+loopKey(l), pos, "left early only with an error", "the loop over the mutators can return without an error before all of them ran: every mutator after the first (the complexity limit, a persisted-query check) is skipped")
		}
	}
	// every call of a mutator stands in a loop (a body that always returns is not one: only the first mutator would run)
	for _, fn := range c.moduleFuncs(func(p string) bool { return p == pkgExecutor }) {
		for _, call := range an.CallsIn(fn, func(ci ssa.CallInstruction, _ an.CalleeInfo) bool {
			return ci.Common().IsInvoke() && strings.HasPrefix(ci.Common().Method.Name(), "MutateOperation")
		}) {
			n++
			inLoop := an.CanReach(call, call)
			if !inLoop && fn.Parent() != nil {
				// the literal is handed to a helper of the package that calls its function parameter once per element
				for _, pb := range fn.Parent().Blocks {
					for _, pi := range pb.Instrs {
						pc, ok := pi.(*ssa.Call)
						if !ok {
							continue
						}
						h := pc.Call.StaticCallee()
						if h == nil || len(h.Blocks) == 0 {
							continue
						}
						for k, a := range pc.Call.Args {
							for _, d := range an.Defs(a) {
								mc, ok := d.(*ssa.MakeClosure)
								if !ok || mc.Fn != ssa.Value(fn) || k >= len(h.Params) {
									continue
								}
								for _, hb := range h.Blocks {
									for _, hi := range hb.Instrs {
										if hc, ok := hi.(*ssa.Call); ok && an.Strip(hc.Call.Value) == ssa.Value(h.Params[k]) && an.CanReach(hi, hi) {
											inLoop = true
										}
									}
								}
							}
						}
					}
				}
			}
			c.R.Check(inLoop, c.fnKey(fn)+"/"+call.Common().Method.Name()+"-in-loop", c.ipos(call), "called once per registered mutator", "the call of the mutators is not inside a loop any more (its body leaves the function on every path): only the first registered mutator runs — a complexity limit registered after another extension is never evaluated")
		}
	}
	if n < 2 {
		c.R.Fail("mutator-lists-in-order-and-complete: only %d mutator loops found", n)
	}
}

// rawParamsReadAfterMutators: what the parameter mutators may rewrite is read after they ran.
func rawParamsReadAfterMutators(c *Ctx) {
	c.R.Rule("rawparams-read-after-mutators", "Executor.CreateOperationContext: RawParams.OperationName, Variables and Extensions are read only after the parameter mutators ran (a mutator that rewrites them must be seen by the operation context)", 2)
	fn := c.fn(pkgExecutor, "*Executor.CreateOperationContext")
	if fn == nil {
		return
	}
	muts := mutatorCallPoints(fn, "MutateOperationParameters")
	if len(muts) == 0 {
		c.R.Fail("rawparams-read-after-mutators: CreateOperationContext calls no parameter mutator")
		return
	}
	n := 0
	for _, b := range fn.Blocks {
		for _, in := range b.Instrs {
			u, ok := in.(*ssa.UnOp)
			if !ok || u.Op != token.MUL {
				continue
			}
			fa, ok := u.X.(*ssa.FieldAddr)
			if !ok {
				continue
			}
			name := ""
			for _, f := range []string{"OperationName", "Variables", "Extensions"} {
				if isRawParamsField(fa, f) {
					name = f
				}
			}
			if name == "" {
				continue
			}
			n++
			var bad ssa.Instruction
			for _, m := range muts {
				if an.CanReach(in, m) {
					bad = m
				}
			}
			c.R.Check(bad == nil, "CreateOperationContext/read:"+name, c.ipos(in), "read after the mutators", "RawParams."+name+" is read before the parameter mutators have run: a mutator that rewrites it (a persisted-operation lookup) is not seen — the limit is evaluated for one operation while another one executes")
		}
	}
	// reads made by a helper of the package that CreateOperationContext hands the parameters to: the call stands for them
	var readsIn func(h *ssa.Function, depth int) []string
	readsIn = func(h *ssa.Function, depth int) []string {
		if h == nil || len(h.Blocks) == 0 || h.Pkg == nil || h.Pkg.Pkg.Path() != pkgExecutor || depth > 2 {
			return nil
		}
		var out []string
		for _, b := range h.Blocks {
			for _, in := range b.Instrs {
				if u, ok := in.(*ssa.UnOp); ok && u.Op == token.MUL {
					if fa, ok := u.X.(*ssa.FieldAddr); ok {
						for _, f := range []string{"OperationName", "Variables", "Extensions"} {
							if isRawParamsField(fa, f) {
								out = append(out, f)
							}
						}
					}
				}
				if call, ok := in.(ssa.CallInstruction); ok && call.Common().StaticCallee() != h {
					out = append(out, readsIn(call.Common().StaticCallee(), depth+1)...)
				}
			}
		}
		return out
	}
	for _, b := range fn.Blocks {
		for _, in := range b.Instrs {
			call, ok := in.(ssa.CallInstruction)
			if !ok {
				continue
			}
			isMut := false
			for _, m := range muts {
				if m == in {
					isMut = true
				}
			}
			if isMut {
				continue
			}
			for _, name := range readsIn(call.Common().StaticCallee(), 0) {
				n++
				var bad ssa.Instruction
				for _, m := range muts {
					if an.CanReach(in, m) {
						bad = m
					}
				}
				c.R.Check(bad == nil, "CreateOperationContext/read:"+name, c.ipos(in), "read (by a helper) after the mutators", "RawParams."+name+" is read before the parameter mutators have run")
			}
		}
	}
	if n < 2 {
		c.R.Fail("rawparams-read-after-mutators: only %d reads of RawParams members found", n)
	}
}

// standardQuerySelections: the standard introspection document asks for what a client needs to rebuild the schema.
func standardQuerySelections(c *Ctx, doc *gast.QueryDocument) {
	c.R.Rule("standard-query-selections", "introspection.Query selects, as the reference introspection query does: __schema{queryType mutationType subscriptionType types directives}, for directives name, locations and args, for full types kind, name, fields, inputFields, interfaces, enumValues and possibleTypes, for input values name, type and defaultValue", 4)
	// collect "parent.child" pairs of field selections, fragments inlined by name
	has := map[string]bool{}
	var walk func(parent string, ss gast.SelectionSet, depth int)
	walk = func(parent string, ss gast.SelectionSet, depth int) {
		if depth > 12 {
			return
		}
		for _, s := range ss {
			switch x := s.(type) {
			case *gast.Field:
				has[parent+"."+x.Name] = true
				walk(x.Name, x.SelectionSet, depth+1)
			case *gast.InlineFragment:
				walk(parent, x.SelectionSet, depth+1)
			case *gast.FragmentSpread:
				if fr := doc.Fragments.ForName(x.Name); fr != nil {
					walk(parent, fr.SelectionSet, depth+1)
				}
			}
		}
	}
	for _, op := range doc.Operations {
		walk("", op.SelectionSet, 0)
	}
	want := map[string][]string{
		"__schema":   {"queryType", "mutationType", "subscriptionType", "types", "directives"},
		"directives": {"name", "locations", "args"},
		"types":      {"kind", "name", "fields", "inputFields", "interfaces", "enumValues", "possibleTypes"},
		"args":       {"name", "type", "defaultValue"},
	}
	for parent, kids := range want {
		var missing []string
		for _, k := range kids {
			if !has[parent+"."+k] {
				missing = append(missing, k)
			}
		}
		c.R.Check(len(missing) == 0, "introspection.Query/"+parent, "graphql/introspection/query.go", "selects "+strings.Join(kids, ", "), "the standard introspection query does not select "+strings.Join(missing, ", ")+" under "+parent+": a client cannot rebuild that part of the schema from the answer")
	}
}

// mutatorCallPoints: the instructions of fn at which mutators of the given kind run: an invoke in fn itself, a call of a helper
// of the package whose body invokes them, or a call that is handed a function literal of fn which invokes them
// (applyMutators(list, func(m) { return m.MutateOperationParameters(ctx, params) })).
func mutatorCallPoints(fn *ssa.Function, method string) []ssa.Instruction {
	invokes := func(f *ssa.Function) bool {
		if f == nil {
			return false
		}
		for _, b := range f.Blocks {
			for _, in := range b.Instrs {
				if ci, ok := in.(ssa.CallInstruction); ok && ci.Common().IsInvoke() && ci.Common().Method.Name() == method {
					return true
				}
			}
		}
		return false
	}
	var out []ssa.Instruction
	for _, b := range fn.Blocks {
		for _, in := range b.Instrs {
			ci, ok := in.(ssa.CallInstruction)
			if !ok {
				continue
			}
			cc := ci.Common()
			if cc.IsInvoke() && cc.Method.Name() == method {
				out = append(out, in)
				continue
			}
			if h := cc.StaticCallee(); h != nil && h.Pkg == fn.Pkg && invokes(h) {
				out = append(out, in)
				continue
			}
			for _, a := range cc.Args {
				for _, d := range an.Defs(a) {
					if mc, ok := d.(*ssa.MakeClosure); ok {
						if cl, _ := mc.Fn.(*ssa.Function); cl != nil && cl.Parent() == fn && invokes(cl) {
							out = append(out, in)
						}
					}
				}
			}
		}
	}
	return out
}

// wireSwitchHasDefault: the functions that translate a wire frame into an internal message refuse unknown frame types: the
// internal type is never the value the variable merely started with because no case matched (the zero value is connection_init).
func wireSwitchHasDefault(c *Ctx) {
	c.R.Rule("wire-switch-has-default", "package transport, toMessage of each websocket subprotocol: the message type handed on is assigned by a case (or looked up with a presence test); no path on which no case matched reaches the success return with the variable's initial zero value, which means connection_init", 2)
	n := 0
	for _, fn := range transportFuncs(c) {
		if fn.Name() != "toMessage" || fn.Parent() != nil {
			continue
		}
		n++
		var bad ssa.Instruction
		for _, b := range fn.Blocks {
			for _, in := range b.Instrs {
				phi, ok := in.(*ssa.Phi)
				if !ok || !strings.HasSuffix(phi.Type().String(), "messageType") {
					continue
				}
				for i, e := range phi.Edges {
					k, isC := an.ConstInt(e)
					if !isC || k != 0 {
						continue
					}
					pred := phi.Block().Preds[i]
					// an explicit `t = initMessageType` comes from a case body (a block that ends in a jump); the implicit
					// initial value arrives straight from a comparison that failed
					if _, isIf := pred.Instrs[len(pred.Instrs)-1].(*ssa.If); isIf {
						bad = phi
					}
				}
			}
		}
		pos := c.pos(fn.Pos())
		if bad != nil {
			pos = c.ipos(bad)
		}
		c.R.Check(bad == nil, c.fnKey(fn)+"/default", pos, "an unknown frame type is refused", "when no case matches, the function goes on with the type variable's initial value, which is connection_init: a first frame of any unknown type is taken for the handshake and acknowledged")
	}
	if n < 2 {
		c.R.Fail("wire-switch-has-default: only %d toMessage functions found", n)
	}
}
