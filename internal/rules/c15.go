package rules

import (
	"go/token"
	"go/types"
	"sort"
	"strings"

	"golang.org/x/tools/go/ssa"

	"verif/internal/an"
	"verif/internal/pipeline"
)

func init() {
	register(&Property{
		ID:      "C15",
		Runtime: append(append([]string{}, RuntimeCore...), "./handler"),
		Run:     runC15,
		Explanation: "Structure of the persisted-query binding, on every path of extension.AutomaticPersistedQuery: (add-guarded) every Cache[string].Add(ctx,k,v) is edge-dominated by computeQueryHash(v)==k over the same " +
			"access paths with no store between guard and call, and computeQueryHash is hex(sha256(arg)); (mismatch-rejected) the != edge only reaches returns of a non-nil error; (lookup-only-when-empty) Cache.Get is " +
			"called only on the Query==\"\" edge, RawParams.Query is assigned in the extension package only from Get's result, and the not-found edge only reaches non-nil error returns; (cache-key-identity) Get/Add of the Cache implementations shipped with gqlgen (MapCache, lru.LRU) index their store with the key parameter itself (or a conversion / constant concatenation of it), never with a lossy derivation; (who-adds) no " +
			"gqlgen function outside the APQ extension calls Add on a Cache[string].",
		NotDecided:  "user-supplied cache implementations and the backing stores themselves (hashicorp LRU, Go maps: trusted to return what was stored under that key or not-found), eviction histories, the client-visible error text",
		Assumptions: []string{"graphql.Cache implementations honour the map contract", "crypto/sha256 and encoding/hex are correct"},
	})
}

func isCacheStringMethod(n, m string) bool {
	return n == "("+pkgGraphql+".Cache[string])."+m
}

// nonNilValue: every definition of v is non-nil by construction (address of an allocation, result of
// a gqlerror constructor, MakeInterface of such).
func nonNilValue(v ssa.Value) bool {
	ds := an.Defs(v)
	if len(ds) == 0 {
		return false
	}
	for _, d := range ds {
		switch x := d.(type) {
		case *ssa.Alloc, *ssa.MakeInterface, *ssa.MakeClosure, *ssa.Function:
			if mi, ok := x.(*ssa.MakeInterface); ok {
				if _, isPtr := mi.X.Type().Underlying().(*types.Pointer); isPtr && !nonNilValue(mi.X) {
					return false
				}
			}
		case *ssa.Call:
			n := an.CalleeOf(x).FullName()
			if !(strings.HasPrefix(n, pkgGqlerror+".Error") || n == pkgGqlerror+".Wrap" || n == pkgGqlerror+".WrapPath" || n == "errors.New" || n == "fmt.Errorf") {
				return false
			}
		case *ssa.Slice:
			// non-empty list literal
			al, ok := x.X.(*ssa.Alloc)
			if !ok {
				return false
			}
			if arr, ok := al.Type().Underlying().(*types.Pointer).Elem().Underlying().(*types.Array); !ok || arr.Len() < 1 {
				return false
			}
		default:
			return false
		}
	}
	return true
}

// errIdx: index of the error result of fn (last result of type error or *gqlerror.Error), or -1.
func errIdx(fn *ssa.Function) int {
	res := fn.Signature.Results()
	for i := res.Len() - 1; i >= 0; i-- {
		t := res.At(i).Type().String()
		if t == "error" || strings.HasSuffix(t, "gqlerror.Error") {
			return i
		}
	}
	return -1
}

// failureStops: every return reachable from block b of fn carries a non-nil error, and — when fn is a helper that the
// module calls statically — every such call site tests that error and its non-nil edge again only reaches failing returns
// (followed up the static call chain; a function without static call sites is an entry point called through an interface).
func (c *Ctx) failureStops(fn *ssa.Function, b *ssa.BasicBlock, fns []*ssa.Function, depth int) (bool, string) {
	idx := errIdx(topFn(fn))
	if fn.Parent() != nil {
		idx = errIdx(fn)
	}
	if idx < 0 {
		return false, "is in a function without an error result"
	}
	if ok, why := c.edgeOnlyErrReturns(b, idx); !ok {
		return false, why
	}
	if depth > 3 || fn.Parent() != nil {
		return true, ""
	}
	for _, caller := range fns {
		for _, call := range an.CallsIn(caller, func(ci ssa.CallInstruction, info an.CalleeInfo) bool { return info.Static == fn }) {
			vc, isV := call.(*ssa.Call)
			if !isV {
				return false, "is in a helper that is started with go/defer at " + c.ipos(call)
			}
			tested := false
			for _, e := range an.CondEdges(caller) {
				empty, k := an.EmptinessFact(e.Fact, func(v ssa.Value) bool {
					// the tested value may merge this call's result with another's (`err = a.store(…)` / `err = a.load(…)`; `if err != nil`)
					for _, d := range append(an.Defs(v), v) {
						if d == ssa.Value(vc) {
							return true
						}
						if cc := an.AllExtractOf(d, idx); cc != nil && cc == ssa.CallInstruction(vc) {
							return true
						}
					}
					return false
				})
				if !k || empty {
					continue
				}
				tested = true
				if ok, why := c.failureStops(caller, e.To, fns, depth+1); !ok {
					return false, "is reported to " + shortFn(caller) + ", whose failure edge " + why
				}
			}
			if !tested {
				return false, "is reported to " + shortFn(caller) + " at " + c.ipos(call) + ", which does not test the error"
			}
		}
	}
	return true, ""
}

// nonNilAt: a branch condition that holds at instruction at says v (or the pointer v wraps as an interface) is not nil.
func nonNilAt(at ssa.Instruction, v ssa.Value) bool {
	cands := []ssa.Value{v}
	for _, d := range an.Defs(v) {
		cands = append(cands, d)
		if mi, ok := d.(*ssa.MakeInterface); ok {
			cands = append(cands, mi.X)
			cands = append(cands, an.Defs(mi.X)...)
		}
	}
	for _, f := range an.Facts(at) {
		if empty, k := an.EmptinessFact(f, func(x ssa.Value) bool {
			for _, cnd := range cands {
				if x == cnd || an.SameVar(x, cnd) {
					return true
				}
			}
			return false
		}); k && !empty {
			return true
		}
	}
	return false
}

// edgeOnlyReachesErrorReturns: every Return reachable from block b returns a non-nil value at result idx.
func (c *Ctx) edgeOnlyErrReturns(b *ssa.BasicBlock, idx int) (bool, string) {
	n := 0
	for blk := range an.Reach(b, nil) {
		for _, in := range blk.Instrs {
			if r, ok := in.(*ssa.Return); ok {
				n++
				if idx >= len(r.Results) || !(nonNilValue(r.Results[idx]) || nonNilAt(r, r.Results[idx])) {
					return false, "reaches the return at " + c.ipos(r) + " whose error may be nil"
				}
			}
		}
	}
	if n == 0 {
		return false, "reaches no return"
	}
	return true, ""
}

// storesBetween reports a store to addr that may execute between instruction a and instruction b.
func storeBetween(fn *ssa.Function, addr ssa.Value, a, b ssa.Instruction) ssa.Instruction {
	for _, blk := range fn.Blocks {
		for _, in := range blk.Instrs {
			st, ok := in.(*ssa.Store)
			if !ok || !an.SameAddr(st.Addr, addr) {
				continue
			}
			if an.CanReach(a, st) && an.CanReach(st, b) {
				return st
			}
		}
	}
	return nil
}

func loadAddr(v ssa.Value) ssa.Value {
	if u, ok := an.Strip(v).(*ssa.UnOp); ok && u.Op == token.MUL {
		return u.X
	}
	return nil
}

// c15AddGuardedRule: the add-guarded rule (shared with C07); returns the hash function the guards use.
func c15AddGuardedRule(c *Ctx) *ssa.Function {
	fns := c.moduleFuncs(isRuntimePkg)

	c.R.Rule("add-guarded", "every Cache[string].Add(ctx,k,v) in the module is edge-dominated by computeQueryHash(v') == k' over the same access paths as v,k with no store in between; the hash function is hex(sha256(arg))", 2)
	var hashFn *ssa.Function
	nAdd := 0
	for _, fn := range fns {
		for _, call := range an.CallsIn(fn, func(_ ssa.CallInstruction, ci an.CalleeInfo) bool { return isCacheStringMethod(ci.FullName(), "Add") }) {
			nAdd++
			key := shortFn(topFn(fn)) + "→Cache.Add"
			args := call.Common().Args
			k, v := args[len(args)-2], args[len(args)-1]
			witness, bad := "", "Cache.Add is not dominated by a test that the SHA-256 of the stored text equals the key: a client could bind any hash to any text"
			for _, g := range an.Guards(call) {
				f := an.FactOf(g)
				if f.Op != token.EQL {
					continue
				}
				for _, pair := range [][2]ssa.Value{{f.X, f.Y}, {f.Y, f.X}} {
					hc, ok := pair[0].(*ssa.Call)
					if !ok || hc.Call.StaticCallee() == nil || len(hc.Call.Args) != 1 {
						continue
					}
					if !an.SameVar(hc.Call.Args[0], v) || !an.SameVar(pair[1], k) {
						continue
					}
					// no store between guard and use
					if a := loadAddr(v); a != nil {
						if st := storeBetween(fn, a, g.If, call); st != nil {
							bad = "the text is re-assigned at " + c.ipos(st) + " between the hash test and Cache.Add"
							continue
						}
					}
					if a := loadAddr(k); a != nil {
						if st := storeBetween(fn, a, g.If, call); st != nil {
							bad = "the key is re-assigned at " + c.ipos(st) + " between the hash test and Cache.Add"
							continue
						}
					}
					hashFn = hc.Call.StaticCallee()
					witness = "guard " + shortFn(hashFn) + "(text) == key at " + c.ipos(g.If)
				}
			}
			c.R.Check(witness != "", key, c.ipos(call), witness, bad)
		}
	}
	if nAdd == 0 {
		c.R.Fail("unresolved anchor: no call of Cache[string].Add found in the module")
	}
	if hashFn != nil {
		ok, why := isHexSha256(hashFn)
		c.R.Check(ok, shortFn(hashFn)+"/is-hex-sha256", c.pos(hashFn.Pos()), "returns hex.EncodeToString(sha256.Sum256([]byte(arg))[:])", "the hash function guarding Cache.Add is not hex(sha256(arg)): "+why)
	}
	return hashFn
}

func runC15(c *Ctx) {
	fns := c.moduleFuncs(isRuntimePkg)
	hashFn := c15AddGuardedRule(c)

	c.R.Rule("mismatch-rejected", "the edge on which the computed hash differs from the client's hash only reaches returns of a non-nil error (nothing is registered or executed)", 1)
	if hashFn != nil {
		for _, fn := range fns {
			for _, e := range an.CondEdges(fn) {
				if e.Fact.Op != token.NEQ {
					continue
				}
				hx, okx := e.Fact.X.(*ssa.Call)
				hy, oky := e.Fact.Y.(*ssa.Call)
				if !(okx && hx.Call.StaticCallee() == hashFn) && !(oky && hy.Call.StaticCallee() == hashFn) {
					continue
				}
				ok, why := c.failureStops(fn, e.To, fns, 0)
				c.R.Check(ok, shortFn(topFn(fn))+"/hash-mismatch-edge", c.ipos(e.If), "all returns reachable from the mismatch edge carry a non-nil error", "hash mismatch "+why)
			}
		}
	}

	c.R.Rule("lookup-only-when-empty", "Cache[string].Get is called only on the Query==\"\" edge; RawParams.Query is stored in package extension only from Get's first result; the not-found edge only reaches non-nil error returns", 3)
	for _, fn := range fns {
		for _, call := range an.CallsIn(fn, func(_ ssa.CallInstruction, ci an.CalleeInfo) bool { return isCacheStringMethod(ci.FullName(), "Get") }) {
			key := shortFn(topFn(fn)) + "→Cache.Get"
			queryEmptyAt := func(at ssa.Instruction) bool {
				for _, f := range an.Facts(at) {
					if f.Op != token.EQL {
						continue
					}
					for _, pair := range [][2]ssa.Value{{f.X, f.Y}, {f.Y, f.X}} {
						s, isStr := an.ConstString(pair[1])
						a := loadAddr(pair[0])
						fa, isFA := a.(*ssa.FieldAddr)
						if isStr && s == "" && isFA && isRawParamsField(fa, "Query") {
							return true
						}
					}
				}
				return false
			}
			w := ""
			if queryEmptyAt(call) {
				w = "guard RawParams.Query == \"\""
			} else if top := topFn(fn); top == fn && top.Object() != nil && !top.Object().Exported() {
				// the lookup sits in an unexported helper (`a.loadQuery(ctx, hash, rawParams)`): every call site is on the Query == "" edge
				sites, all := 0, true
				for _, caller := range fns {
					for _, cs := range an.CallsIn(caller, func(_ ssa.CallInstruction, ci an.CalleeInfo) bool { return ci.Static == top }) {
						sites++
						if _, sync := cs.(*ssa.Call); !sync || !queryEmptyAt(cs) {
							all = false
						}
					}
				}
				if sites > 0 && all {
					w = sprintf("every call site of %s is guarded by RawParams.Query == \"\"", top.Name())
				}
			}
			c.R.Check(w != "", key, c.ipos(call), w, "the persisted-query cache is consulted although the request carries query text: the executed text would not be the one sent")
			// not-found edge
			vc, _ := call.(*ssa.Call)
			found := false
			for _, e := range an.CondEdges(fn) {
				if e.Fact.Op != token.ILLEGAL || !e.Fact.Neg {
					continue
				}
				if cc := an.AllExtractOf(e.Fact.X, 1); cc == nil || vc == nil || cc != ssa.CallInstruction(vc) {
					continue
				}
				found = true
				ok, why := c.failureStops(fn, e.To, fns, 0)
				c.R.Check(ok, key+"/not-found-edge", c.ipos(e.If), "not-found edge only reaches non-nil error returns", "a hash that is not in the cache "+why+": the request would run with empty query text")
			}
			if !found {
				c.R.Bad(key+"/not-found-edge", c.ipos(call), "the ok result of Cache.Get is never tested")
			}
		}
	}
	for _, fn := range c.moduleFuncs(func(p string) bool { return p == pkgExtension }) {
		for _, b := range fn.Blocks {
			for _, in := range b.Instrs {
				st, ok := in.(*ssa.Store)
				if !ok {
					continue
				}
				fa, ok := st.Addr.(*ssa.FieldAddr)
				if !ok || !isRawParamsField(fa, "Query") {
					continue
				}
				cc := an.AllExtractOf(st.Val, 0)
				ok = cc != nil && isCacheStringMethod(an.CalleeOf(cc).FullName(), "Get")
				c.R.Check(ok, shortFn(topFn(fn))+"/store:RawParams.Query", c.ipos(st), "assigned from Cache.Get's first result", "RawParams.Query is overwritten by an extension with something other than the cached text")
			}
		}
	}

	c15CacheKeyIdentity(c)
	rawQueryAfterMutators(c)
	forwardersKeepOrder(c, "forwarders-keep-order", modPath("handler"), pkgGraphql, pkgExtension, modPath("graphql/handler/lru"))
	decoderUsesNumber(c)
	c09StatusVsDispatch(c, nil)
	apqVersionGate(c)
	getParamFields(c)
	// a hash-only request must not find a previous request's text in the pooled request object (C07/pool-reset), and an error
	// from the extension must stop the request (C03/fail-closed)
	c07PoolReset(c)
	c03FailClosed(c)

	c.R.Rule("who-adds", "Cache[string].Add is called (through the interface) only by methods of extension.AutomaticPersistedQuery (each such site is subject to add-guarded)", 1)
	for _, fn := range fns {
		for _, call := range an.CallsIn(fn, func(_ ssa.CallInstruction, ci an.CalleeInfo) bool { return isCacheStringMethod(ci.FullName(), "Add") }) {
			t := topFn(fn)
			ok := t.Pkg != nil && t.Pkg.Pkg.Path() == pkgExtension && t.Signature.Recv() != nil && an.NamedIs(t.Signature.Recv().Type(), pkgExtension, "AutomaticPersistedQuery")
			c.R.Check(ok, shortFn(t)+"/adds", c.ipos(call), "the APQ extension", "a writer of the persisted-query cache outside the APQ extension: registrations that bypass the hash test")
		}
	}
}

func isRawParamsField(fa *ssa.FieldAddr, name string) bool {
	p, ok := fa.X.Type().Underlying().(*types.Pointer)
	return ok && an.NamedIs(p.Elem(), pkgGraphql, "RawParams") && fieldNameOf(fa) == name
}

// isHexSha256 checks fn(arg string) string { b := sha256.Sum256([]byte(arg)); return hex.EncodeToString(b[:]) }
// by data flow: return <- hex.EncodeToString(slice of cell) <- cell stores <- sha256.Sum256(convert(param)).
func isHexSha256(fn *ssa.Function) (bool, string) {
	if len(fn.Params) != 1 {
		return false, "unexpected signature"
	}
	rets := an.Returns(fn)
	if len(rets) == 0 {
		return false, "no return"
	}
	for _, r := range rets {
		if len(r.Results) != 1 {
			return false, "unexpected results"
		}
		for _, d := range an.Defs(r.Results[0]) {
			call, ok := d.(*ssa.Call)
			if !ok || an.CalleeOf(call).FullName() != "encoding/hex.EncodeToString" {
				return false, "returned value is not hex.EncodeToString(...)"
			}
			// streaming form: h := sha256.New(); io.WriteString(h, arg) / h.Write([]byte(arg)); hex.EncodeToString(h.Sum(nil))
			if sumCall, ok := call.Call.Args[0].(*ssa.Call); ok && sumCall.Call.IsInvoke() && sumCall.Call.Method.Name() == "Sum" && len(sumCall.Call.Args) == 1 && an.IsNilConst(sumCall.Call.Args[0]) {
				h, ok := an.Strip(sumCall.Call.Value).(*ssa.Call)
				if !ok || an.CalleeOf(h).FullName() != "crypto/sha256.New" {
					return false, "digest is not taken from sha256.New()"
				}
				writes := 0
				for _, ref := range an.Referrers(h) {
					switch x := ref.(type) {
					case *ssa.Call:
						if x == sumCall {
							continue
						}
						var in ssa.Value
						if x.Call.IsInvoke() && (x.Call.Method.Name() == "Write" || x.Call.Method.Name() == "WriteString") && len(x.Call.Args) == 1 {
							in = x.Call.Args[0]
						}
						if an.CalleeOf(x).FullName() == "io.WriteString" && len(x.Call.Args) == 2 {
							in = x.Call.Args[1]
						}
						if in == nil {
							return false, "the hash state is used by something other than a write of the argument"
						}
						if cv, ok := in.(*ssa.Convert); ok {
							in = cv.X
						}
						if an.Strip(in) != ssa.Value(fn.Params[0]) {
							return false, "something other than the function's argument is hashed"
						}
						writes++
					case *ssa.MakeInterface, *ssa.ChangeInterface:
						// io.WriteString(h, …) boxes the hash as an io.Writer
						for _, r2 := range an.Referrers(x.(ssa.Value)) {
							c2, ok := r2.(*ssa.Call)
							if !ok || an.CalleeOf(c2).FullName() != "io.WriteString" {
								return false, "the hash state escapes"
							}
							in := c2.Call.Args[1]
							if an.Strip(in) != ssa.Value(fn.Params[0]) {
								return false, "something other than the function's argument is hashed"
							}
							writes++
						}
					case *ssa.DebugRef:
					default:
						return false, "the hash state escapes"
					}
				}
				if writes != 1 {
					return false, "the argument is not written to the hash exactly once"
				}
				continue
			}
			sl, ok := call.Call.Args[0].(*ssa.Slice)
			if !ok || sl.Low != nil || sl.High != nil {
				return false, "hex input is not the whole digest"
			}
			sts := an.CellStores(sl.X)
			if len(sts) != 1 {
				return false, "digest buffer has several writers"
			}
			sum, ok := sts[0].Val.(*ssa.Call)
			if !ok || an.CalleeOf(sum).FullName() != "crypto/sha256.Sum256" {
				return false, "digest is not sha256.Sum256(...)"
			}
			in := sum.Call.Args[0]
			if cv, ok := in.(*ssa.Convert); ok {
				in = cv.X
			}
			if in != ssa.Value(fn.Params[0]) {
				return false, "sha256 input is not the function's argument"
			}
		}
	}
	return true, ""
}

// c15CacheKeyIdentity: the cache implementations shipped with gqlgen (graphql.MapCache, lru.LRU) file every entry under the
// very key string they are given.  A hash-only APQ request must resolve to the text registered under *that* hash; a store that
// indexes entries by a shorter digest of the key lets two different hashes share an entry.  Checked: in every method named Get
// or Add with a `key string` parameter on a type of the runtime packages, each map index / map update / call into the backing
// store uses a key that is the parameter itself, a conversion of it, or a concatenation of it with constants (provably
// injective); any other derivation of the key is reported.
func c15CacheKeyIdentity(c *Ctx) {
	c.R.Rule("cache-key-identity", "Get/Add of the module's Cache implementations (MapCache, lru.LRU) index their store with the key parameter itself (or a conversion / constant concatenation of it), never with a lossy derivation of it", 3)
	n := 0
	// the generic method bodies themselves (Get/Add of named types declared in the runtime packages)
	var methods []*ssa.Function
	for _, tp := range c.W.All {
		if tp.Types == nil || !pipeline.InModule(tp.PkgPath) || !isRuntimePkg(tp.PkgPath) {
			continue
		}
		sc := tp.Types.Scope()
		for _, name := range sc.Names() {
			tn, ok := sc.Lookup(name).(*types.TypeName)
			if !ok {
				continue
			}
			named, ok := tn.Type().(*types.Named)
			if !ok {
				continue
			}
			for i := 0; i < named.NumMethods(); i++ {
				m := named.Method(i)
				if m.Name() != "Get" && m.Name() != "Add" {
					continue
				}
				if f := c.W.Prog.FuncValue(m); f != nil && len(f.Blocks) > 0 {
					methods = append(methods, f)
				}
			}
		}
	}
	sort.Slice(methods, func(i, j int) bool { return methods[i].String() < methods[j].String() })
	for _, fn := range methods {
		var key *ssa.Parameter
		for _, p := range fn.Params[1:] {
			if bt, ok := p.Type().Underlying().(*types.Basic); ok && bt.Kind() == types.String && p.Name() == "key" {
				key = p
			}
		}
		if key == nil || len(fn.Params) < 3 || !strings.HasSuffix(fn.Params[1].Type().String(), "context.Context") {
			continue
		}
		var injective func(v ssa.Value, depth int) bool
		injective = func(v ssa.Value, depth int) bool {
			if depth > 6 {
				return false
			}
			switch x := an.Strip(v).(type) {
			case *ssa.Parameter:
				return x == key
			case *ssa.Convert:
				return injective(x.X, depth+1)
			case *ssa.BinOp:
				if x.Op != token.ADD {
					return false
				}
				_, cx := x.X.(*ssa.Const)
				_, cy := x.Y.(*ssa.Const)
				return cx && injective(x.Y, depth+1) || cy && injective(x.X, depth+1)
			case *ssa.UnOp:
				if x.Op == token.MUL {
					if d := an.SoleDef(x); d != nil && d != v {
						return injective(d, depth+1)
					}
				}
			}
			return false
		}
		derivesFromKey := func(v ssa.Value) bool {
			seen := map[ssa.Value]bool{}
			var walk func(v ssa.Value) bool
			walk = func(v ssa.Value) bool {
				if v == nil || seen[v] {
					return false
				}
				seen[v] = true
				if v == ssa.Value(key) {
					return true
				}
				if in, ok := v.(ssa.Instruction); ok {
					for _, op := range in.Operands(nil) {
						if *op != nil && walk(*op) {
							return true
						}
					}
				}
				return false
			}
			return walk(v)
		}
		for _, b := range fn.Blocks {
			for _, in := range b.Instrs {
				var k ssa.Value
				switch x := in.(type) {
				case *ssa.Lookup:
					if _, isMap := x.X.Type().Underlying().(*types.Map); isMap {
						k = x.Index
					}
				case *ssa.MapUpdate:
					k = x.Key
				case *ssa.Call:
					// a call into the backing store: the first argument that is derived from the key parameter
					if x.Call.StaticCallee() != nil && pipelineInModule(x.Call.StaticCallee()) {
						continue
					}
					for _, a := range x.Call.Args {
						if derivesFromKey(a) {
							if cv, isConv := an.Strip(a).(*ssa.MakeInterface); isConv {
								a = cv.X
							}
							k = a
							break
						}
					}
				}
				if k == nil || !derivesFromKey(k) {
					continue
				}
				n++
				c.R.Check(injective(k, 0), shortFn(fn)+"/store-key", c.ipos(in), "indexed by the key parameter itself", "the cache entry is filed under a value computed from the key ("+k.Name()+"), not under the key: two different keys (persisted-query hashes) can share an entry, so a hash resolves to text registered under another hash")
			}
		}
	}
	if n < 3 {
		c.R.Fail("cache-key-identity examined only %d store accesses", n)
	}
}

func pipelineInModule(f *ssa.Function) bool {
	return f.Pkg != nil && strings.HasPrefix(f.Pkg.Pkg.Path(), modPath(""))
}
