package rules

import (
	"go/token"
	"go/types"
	"strings"

	"golang.org/x/tools/go/ssa"

	"verif/internal/an"
)

// c13DeferNonInterference: in collectFields and the graphql-package functions it calls, the outcome of deferrable() (whether a
// fragment carries an active @defer, and its label) and the Deferrable mark of an already collected field may influence
// nothing but the Deferrable mark: no store into a CollectedField (other than .Deferrable), into the grouped-field slice,
// into a selection set or into the visited-fragments map is control dependent (transitively, through calls) on such a value,
// and no stored value is computed from one.  This is an information-flow (non-interference) argument: with it, the selections
// collected for every field are the same function of the document with and without @defer, which C13 needs ("adding @defer
// changes when data arrives, never what the merged data is").
func c13DeferNonInterference(c *Ctx) {
	c.R.Rule("defer-noninterference", "in graphql.collectFields and its same-package callees: every store into a CollectedField (except .Deferrable), the grouped-field slice, a selection set or the visited map is neither control dependent on, nor computed from, the result of deferrable() or a field's Deferrable mark", 4)
	root := c.fn(pkgGraphql, "collectFields")
	if root == nil {
		return
	}
	// function set: collectFields, its closures, and static same-package callees (transitively)
	set := map[*ssa.Function]bool{}
	var order []*ssa.Function
	var add func(f *ssa.Function)
	add = func(f *ssa.Function) {
		if f == nil || set[f] || len(f.Blocks) == 0 || f.Pkg == nil && f.Parent() == nil {
			return
		}
		top := topFn(f)
		if top.Pkg == nil || top.Pkg.Pkg.Path() != pkgGraphql {
			return
		}
		set[f] = true
		order = append(order, f)
		for _, b := range f.Blocks {
			for _, in := range b.Instrs {
				if mc, ok := in.(*ssa.MakeClosure); ok {
					add(mc.Fn.(*ssa.Function))
				}
				if call, ok := in.(ssa.CallInstruction); ok {
					add(call.Common().StaticCallee())
				}
			}
		}
	}
	add(root)
	isSource := func(f *ssa.Function) bool {
		return f != nil && f.Name() == "deferrable" && f.Pkg != nil && f.Pkg.Pkg.Path() == pkgGraphql
	}
	if src := c.fn(pkgGraphql, "deferrable"); src == nil {
		return
	}
	delete(set, c.W.Func(pkgGraphql, "deferrable")) // the source itself is not analysed: everything it returns is "defer information"

	cd := map[*ssa.Function]map[*ssa.BasicBlock][]*ssa.BasicBlock{}
	for f := range set {
		cd[f] = an.ControlDeps(f)
	}
	tainted := map[ssa.Value]bool{}
	cells := map[ssa.Value]bool{}
	dep := map[*ssa.BasicBlock]bool{}
	underTaint := map[*ssa.Function]bool{} // called from a dependent block: the whole body is dependent
	why := map[*ssa.BasicBlock]ssa.Instruction{}

	rootOf := func(addr ssa.Value) ssa.Value {
		for i := 0; i < 16; i++ {
			switch x := addr.(type) {
			case *ssa.FieldAddr:
				addr = x.X
			case *ssa.IndexAddr:
				addr = x.X
			default:
				return an.RootAlloc(addr)
			}
		}
		return addr
	}
	isDeferrableField := func(addr ssa.Value) bool {
		fa, ok := addr.(*ssa.FieldAddr)
		return ok && fieldNameOf(fa) == "Deferrable" && an.NamedIs(fa.X.Type(), pkgGraphql, "CollectedField")
	}
	taintedIf := func(b *ssa.BasicBlock) bool {
		if len(b.Instrs) == 0 {
			return false
		}
		iff, ok := b.Instrs[len(b.Instrs)-1].(*ssa.If)
		return ok && tainted[iff.Cond]
	}
	changed := true
	mark := func(v ssa.Value) {
		if v != nil && !tainted[v] {
			tainted[v] = true
			changed = true
		}
	}
	for iter := 0; changed && iter < 64; iter++ {
		changed = false
		for _, f := range order {
			if !set[f] {
				continue
			}
			for _, b := range f.Blocks {
				for _, in := range b.Instrs {
					// value taint
					if v, ok := in.(ssa.Value); ok && !tainted[v] {
						t := false
						switch x := in.(type) {
						case *ssa.Call:
							if isSource(x.Call.StaticCallee()) {
								t = true
							}
						case *ssa.UnOp:
							if x.Op == token.MUL {
								if isDeferrableField(x.X) {
									t = true
								}
								if r := rootOf(x.X); cells[r] || tainted[r] {
									t = true
								}
							}
						case *ssa.Phi:
							// implicit flow: the predecessors governed by a defer-dependent branch bring different values
							var first ssa.Value
							for i, p := range b.Preds {
								if !(dep[p] || taintedIf(p)) {
									continue
								}
								e := an.Strip(x.Edges[i])
								if first == nil {
									first = e
								} else if first != e {
									t = true
								}
							}
						}
						if !t {
							for _, op := range in.Operands(nil) {
								if *op != nil && tainted[*op] {
									t = true
								}
							}
						}
						if t {
							mark(v)
						}
					}
					switch x := in.(type) {
					case *ssa.Store:
						if tainted[x.Val] || dep[b] {
							if r, ok := rootOf(x.Addr).(*ssa.Alloc); ok && !cells[r] {
								cells[r] = true
								changed = true
							}
						}
					case *ssa.MakeClosure:
						cl := x.Fn.(*ssa.Function)
						for i, bnd := range x.Bindings {
							if (tainted[bnd] || cells[an.RootAlloc(bnd)]) && i < len(cl.FreeVars) {
								mark(cl.FreeVars[i])
							}
						}
						if dep[b] && set[cl] && !underTaint[cl] {
							underTaint[cl] = true
							changed = true
						}
					}
					if call, ok := in.(ssa.CallInstruction); ok {
						callee := call.Common().StaticCallee()
						if callee != nil && set[callee] {
							args := call.Common().Args
							for i, a := range args {
								if i < len(callee.Params) && (tainted[a] || cells[rootOf(a)] && isPointerish(a)) {
									mark(callee.Params[i])
								}
							}
							if dep[b] && !underTaint[callee] {
								underTaint[callee] = true
								changed = true
							}
						}
					}
				}
			}
			// dependent blocks of f
			for _, b := range f.Blocks {
				if dep[b] {
					continue
				}
				d := underTaint[f]
				var w ssa.Instruction
				for _, a := range cd[f][b] {
					if a == b && !taintedIf(a) {
						continue
					}
					if taintedIf(a) || dep[a] {
						d = true
						if w == nil {
							if taintedIf(a) {
								w = a.Instrs[len(a.Instrs)-1]
							} else {
								w = why[a]
							}
						}
					}
				}
				if d {
					dep[b] = true
					why[b] = w
					changed = true
				}
			}
		}
	}

	// sinks
	isSinkType := func(t types.Type) bool {
		p, ok := t.Underlying().(*types.Pointer)
		if !ok {
			return false
		}
		s := p.Elem().String()
		switch {
		case strings.HasSuffix(s, "graphql.CollectedField"), strings.HasSuffix(s, "[]"+pkgGraphql+".CollectedField"):
			return true
		case strings.HasSuffix(s, "ast.SelectionSet"), strings.HasSuffix(s, "ast.Field"), strings.HasSuffix(s, "ast.Selection"):
			return true
		}
		return false
	}
	n := 0
	for _, f := range order {
		if !set[f] {
			continue
		}
		for _, b := range f.Blocks {
			for _, in := range b.Instrs {
				var val ssa.Value
				what := ""
				switch x := in.(type) {
				case *ssa.Store:
					if isDeferrableField(x.Addr) || !isSinkType(x.Addr.Type()) {
						continue
					}
					if al, ok := x.Addr.(*ssa.Alloc); ok && !al.Heap {
						continue // a local variable, not the collected result
					}
					val, what = x.Val, "store into "+strings.TrimPrefix(types.TypeString(x.Addr.Type(), func(p *types.Package) string { return p.Name() }), "*")
				case *ssa.MapUpdate:
					val, what = x.Value, "update of the visited-fragments map"
					if tainted[x.Key] {
						val = x.Key
					}
				default:
					continue
				}
				n++
				key := shortFn(topFn(f)) + "/" + strings.ReplaceAll(what, " ", "-")
				switch {
				case dep[b]:
					w := ""
					if why[b] != nil {
						w = " (branch at " + c.ipos(why[b]) + ")"
					}
					c.R.Bad(key, c.ipos(in), "this "+what+" happens or not depending on whether the fragment is deferred"+w+": adding @defer changes which selections are collected, i.e. what the merged data contains, not only when it arrives")
				case tainted[val]:
					c.R.Bad(key, c.ipos(in), "the value of this "+what+" is computed from @defer information: adding @defer changes the collected selections")
				default:
					c.R.OK(key, c.ipos(in), "independent of deferrable() and of Deferrable marks")
				}
			}
		}
	}
	// the source must actually be used (otherwise the rule is vacuous)
	nsrc := 0
	for f := range set {
		nsrc += len(an.CallsIn(f, func(_ ssa.CallInstruction, ci an.CalleeInfo) bool { return isSource(ci.Static) }))
	}
	if nsrc == 0 {
		c.R.Fail("defer-noninterference: collectFields and its callees never call deferrable()")
	}
	if n < 4 {
		c.R.Fail("defer-noninterference examined only %d stores", n)
	}
}

func isPointerish(v ssa.Value) bool {
	switch v.Type().Underlying().(type) {
	case *types.Pointer, *types.Slice, *types.Map:
		return true
	}
	return false
}
