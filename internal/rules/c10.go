package rules

import (
	"go/token"
	"go/types"
	"strings"

	"golang.org/x/tools/go/ssa"

	"verif/internal/an"
)

func init() {
	register(&Property{
		ID:      "C10",
		Runtime: RuntimeCore,
		Run:     runC10,
		Explanation: "Absence of three enumerated kinds of gqlgen-owned panic sources on input-handling code (RawParams.AddUpload and every function of package transport), plus upload limits and temp-file pairing, on every path: " +
			"(decode-nil) a JSON decode whose target is the address of a pointer variable can leave that variable nil (body `null`): every later use of it must be nil-guarded; " +
			"(unchecked-assert) no single-value type assertion, non-constant slice index or map store on data decoded from the client unless edge-dominated by a comma-ok / bounds / non-nil test of the same value; " +
			"(upload-limits) r.MultipartReader() is dominated by the ContentLength test and the MaxBytesReader wrap; (tempfile-pairing) every os.CreateTemp success path registers a deferred os.Remove of that name " +
			"before any return/back-edge and every os.Open of it a deferred Close; (fresh-reader) the Upload.File handed to AddUpload is created inside the per-path loop; (last-resort) Server.ServeHTTP registers its recover before Transport.Do.",
		NotDecided:  "general nil/bounds safety of all code (no sound general analysis in reach); delivery of the exact bytes of uploads; websocket frame parsing inside gorilla/websocket",
		Assumptions: []string{"encoding/json leaves a non-pointer-to-pointer target untouched on JSON null", "client-derived data is what flows from json decode targets and RawParams fields"},
	})
}

func transportFuncs(c *Ctx) []*ssa.Function {
	return c.moduleFuncs(func(p string) bool { return p == pkgTransport })
}

// decodeTarget returns the argument that receives decoded JSON for calls of json.Decoder.Decode,
// json.Unmarshal and the package's own jsonDecode helper (resolved by role).
func (c *Ctx) decodeTarget(call ssa.CallInstruction) ssa.Value {
	ci := an.CalleeOf(call)
	n := ci.FullName()
	args := call.Common().Args
	switch {
	case n == "(*encoding/json.Decoder).Decode" && len(args) == 2:
		return args[1]
	case n == "encoding/json.Unmarshal" && len(args) == 2:
		return args[1]
	case ci.Static != nil && c.isDecodeHelper(ci.Static) >= 0:
		return args[c.isDecodeHelper(ci.Static)]
	}
	return nil
}

var decodeHelperCache = map[*ssa.Function]int{}

// isDecodeHelper: a module function that passes one of its parameters straight to Decoder.Decode / Unmarshal.
func (c *Ctx) isDecodeHelper(fn *ssa.Function) int {
	if v, ok := decodeHelperCache[fn]; ok {
		return v
	}
	decodeHelperCache[fn] = -1
	if !strings.HasPrefix(fn.String(), pkgTransport) && !strings.HasPrefix(fn.String(), pkgGraphql) {
		return -1
	}
	for _, b := range fn.Blocks {
		for _, in := range b.Instrs {
			call, ok := in.(ssa.CallInstruction)
			if !ok {
				continue
			}
			n := an.CalleeOf(call).FullName()
			if n != "(*encoding/json.Decoder).Decode" && n != "encoding/json.Unmarshal" {
				continue
			}
			t := call.Common().Args[len(call.Common().Args)-1]
			for i, p := range fn.Params {
				if ssa.Value(p) == t {
					decodeHelperCache[fn] = i
					return i
				}
			}
		}
	}
	return -1
}

func runC10(c *Ctx) {
	c10DecodeNil(c)
	c10Unchecked(c)
	c10Upload(c)
	c10LastResort(c, "last-resort")
	nilFuncCalls(c, "nil-func-call", pkgTransport)
	limitHelpersOwnField(c)
	seekAddsOffset(c)
	// an error answer ends the request: nothing is executed, and no second document is appended, after it (C09)
	c09StatusVsDispatch(c, nil)
	c11TerminalFrame(c)
	useUnderErrorEdge(c, "use-under-error-edge", pkgTransport, pkgGraphql)
	loopCapturedCleanup(c, "loop-captured-cleanup", pkgTransport)
	readerIndexInRange(c)
}

func c10DecodeNil(c *Ctx) {
	c.R.Rule("decode-nil", "for every JSON decode in package transport: if the target is the address of a pointer variable (JSON null makes it nil), every later use of that variable other than a nil comparison is edge-dominated by a != nil test of it", 8)
	check := func(fns []*ssa.Function, fixture bool) (violations int) {
		for _, fn := range fns {
			for _, call := range an.CallsIn(fn, func(ci ssa.CallInstruction, _ an.CalleeInfo) bool { return c.decodeTarget(ci) != nil }) {
				if c.isDecodeHelper(fn) >= 0 {
					continue // the helper itself forwards its parameter
				}
				key := shortFn(topFn(fn)) + "/decode"
				tgt := an.Strip(c.decodeTarget(call))
				cell, isAlloc := an.RootAlloc(tgt).(*ssa.Alloc)
				if !isAlloc {
					if !fixture {
						c.R.OKTrivial(key, c.ipos(call), "target "+tgt.Type().String()+" is not the address of a local pointer variable")
					}
					continue
				}
				if _, isPtr := cell.Type().Underlying().(*types.Pointer).Elem().Underlying().(*types.Pointer); !isPtr {
					if !fixture {
						c.R.OKTrivial(key, c.ipos(call), "target variable of type "+cell.Type().(*types.Pointer).Elem().String()+" cannot be set to a nil pointer by JSON null")
					}
					continue
				}
				// every use of a load of the cell
				bad := ""
				for _, ref := range an.CellRefs(cell) {
					ld, ok := ref.(*ssa.UnOp)
					if !ok || ld.Op != token.MUL {
						continue
					}
					if ld.Parent() == call.Parent() && !an.CanReach(call, ld) {
						continue // before the decode
					}
					for _, use := range an.Referrers(ld) {
						if b, ok := use.(*ssa.BinOp); ok && (b.Op == token.EQL || b.Op == token.NEQ) && (an.IsNilConst(b.X) || an.IsNilConst(b.Y)) {
							continue
						}
						if _, ok := use.(*ssa.DebugRef); ok {
							continue
						}
						guarded := false
						for _, f := range an.Facts(use) {
							if empty, ok := an.EmptinessFact(f, func(v ssa.Value) bool { return an.SameVar(v, ld) }); ok && !empty {
								guarded = true
							}
						}
						if !guarded && bad == "" {
							bad = sprintf("the decoded pointer %s is used at %s without a nil test: a JSON body `null` leaves it nil and gqlgen's own code panics", cell.Comment, c.ipos(use))
						}
					}
				}
				if fixture {
					if bad != "" {
						violations++
					}
					continue
				}
				c.R.Check(bad == "", key, c.ipos(call), "every use of the decoded pointer is nil-guarded", bad)
			}
		}
		return
	}
	check(transportFuncs(c), false)
	fx := c.moduleFuncs(func(p string) bool { return p == modPath("verif_fixtures/decodenil") })
	n := check(fx, true)
	c.R.Check(n == 1, "fixture:decodenil", "verif_fixtures/decodenil", "positive example flagged", sprintf("the positive fixture (decode into **T, unguarded use) was flagged %d times, expected 1: the rule has gone blind", n))
}

// ------------------------------------------------------------------------------------------------

// clientDerived: v may hold data decoded from the client: (transitively) a load from RawParams
// fields Variables/Extensions, a decode target, the result of indexing/asserting such data.
func (c *Ctx) clientDerived(v ssa.Value, depth int) bool {
	if depth > 12 {
		return false
	}
	for _, d := range an.Defs(v) {
		switch x := d.(type) {
		case *ssa.Parameter:
			// the connection_init payload (any JSON object the client chose)
			if an.NamedIs(x.Type(), pkgTransport, "InitPayload") {
				return true
			}
		case *ssa.UnOp:
			if x.Op == token.MUL {
				if fa, ok := x.X.(*ssa.FieldAddr); ok {
					if isRawParamsField(fa, "Variables") || isRawParamsField(fa, "Extensions") {
						return true
					}
				}
				if ia, ok := x.X.(*ssa.IndexAddr); ok && c.clientDerived(ia.X, depth+1) {
					return true
				}
			}
		case *ssa.TypeAssert:
			if c.clientDerived(x.X, depth+1) {
				return true
			}
		case *ssa.Extract:
			if c.clientDerived(x.Tuple, depth+1) {
				return true
			}
		case *ssa.Lookup:
			if c.clientDerived(x.X, depth+1) {
				return true
			}
		case *ssa.MakeInterface:
			if c.clientDerived(x.X, depth+1) {
				return true
			}
		case *ssa.Index:
			if c.clientDerived(x.X, depth+1) {
				return true
			}
		}
	}
	return false
}

func c10Unchecked(c *Ctx) {
	c.R.Rule("unchecked-assert", "in RawParams.AddUpload and package transport: no single-value type assertion on, no non-constant index into, and no map store through a value derived from decoded client data unless edge-dominated by a comma-ok/kind test, a bounds test (0 <= i < len) or a non-nil test of that same value", 3)
	add := c.fn(pkgGraphql, "*RawParams.AddUpload")
	fns := transportFuncs(c)
	if add != nil {
		fns = append(fns, an.WithClosures(add)...)
	}
	fx := c.moduleFuncs(func(p string) bool { return p == modPath("verif_fixtures/uncheckedassert") })
	nfx := 0
	for _, fn := range append(fns, fx...) {
		isFx := strings.Contains(fn.String(), "verif_fixtures")
		report := func(ok bool, key, pos, witness, what string) {
			if isFx {
				if !ok {
					nfx++
				}
				return
			}
			c.R.Check(ok, key, pos, witness, what)
		}
		for _, b := range fn.Blocks {
			for _, in := range b.Instrs {
				switch x := in.(type) {
				case *ssa.TypeAssert:
					if x.CommaOk || !c.clientDerived(x.X, 0) {
						continue
					}
					report(false, shortFn(topFn(fn))+"/assert:"+types.TypeString(x.AssertedType, nil), c.ipos(x), "",
						"single-value type assertion on client-supplied data: a multipart map path that addresses a value of another kind panics in gqlgen's own code")
				case *ssa.IndexAddr:
					if _, isConst := x.Index.(*ssa.Const); isConst || !c.clientDerived(x.X, 0) {
						continue
					}
					if _, isSlice := x.X.Type().Underlying().(*types.Slice); !isSlice {
						continue
					}
					lo, hi := false, false
					for _, f := range an.Facts(x) {
						if boundFact(f, x.Index, x.X, true) {
							hi = true
						}
						if boundFact(f, x.Index, x.X, false) {
							lo = true
						}
					}
					report(lo && hi, shortFn(topFn(fn))+"/index", c.ipos(x), "dominated by 0 <= i and i < len(slice)",
						"client-controlled index into a client-supplied list without a dominating bounds test (lower="+sprintf("%v", lo)+", upper="+sprintf("%v", hi)+"): an out-of-range or negative path element panics")
				case *ssa.MapUpdate:
					if !c.clientDerived(x.Map, 0) {
						continue
					}
					ok := false
					for _, f := range an.Facts(x) {
						if empty, k := an.EmptinessFact(f, func(v ssa.Value) bool { return an.SameVar(v, x.Map) }); k && !empty {
							ok = true
						}
					}
					report(ok, shortFn(topFn(fn))+"/mapstore", c.ipos(x), "dominated by map != nil",
						"store into a client-supplied map that may be nil (absent `variables`): assignment to entry in nil map panics")
				}
			}
		}
	}
	c.R.Check(nfx == 3, "fixture:uncheckedassert", "verif_fixtures/uncheckedassert", "positive examples flagged (assert, index, map store)", sprintf("the positive fixture was flagged %d times, expected 3: the rule has gone blind", nfx))
}

// boundFact: f states idx < len(slice) (upper) or idx >= 0 (lower).
func boundFact(f an.Fact, idx, slice ssa.Value, upper bool) bool {
	isLenOf := func(v ssa.Value) bool {
		call, ok := v.(*ssa.Call)
		if !ok {
			return false
		}
		b, ok := call.Call.Value.(*ssa.Builtin)
		return ok && b.Name() == "len" && an.SameVar(call.Call.Args[0], slice)
	}
	isIdx := func(v ssa.Value) bool { return an.SameVar(v, idx) }
	if f.Op == token.ILLEGAL || f.X == nil || f.Y == nil {
		return false
	}
	if upper {
		return (f.Op == token.LSS && isIdx(f.X) && isLenOf(f.Y)) || (f.Op == token.GTR && isLenOf(f.X) && isIdx(f.Y))
	}
	if n, ok := an.ConstInt(f.Y); ok && isIdx(f.X) {
		return (f.Op == token.GEQ && n == 0) || (f.Op == token.GTR && n == -1)
	}
	if n, ok := an.ConstInt(f.X); ok && isIdx(f.Y) {
		return (f.Op == token.LEQ && n == 0) || (f.Op == token.LSS && n == -1)
	}
	return false
}

// ------------------------------------------------------------------------------------------------

func c10Upload(c *Ctx) {
	do := c.fn(pkgTransport, "MultipartForm.Do")
	if do == nil {
		return
	}
	fns := an.WithClosures(do)

	c.R.Rule("upload-limits", "(*http.Request).MultipartReader is dominated by a ContentLength-vs-limit test that returns on the too-large edge, and by the store of http.MaxBytesReader(...) into r.Body", 1)
	for _, fn := range fns {
		for _, call := range an.CallsIn(fn, func(_ ssa.CallInstruction, ci an.CalleeInfo) bool {
			return ci.FullName() == "(*net/http.Request).MultipartReader"
		}) {
			key := shortFn(topFn(fn)) + "→MultipartReader"
			// (a) guard on ContentLength
			lenGuard := false
			for _, f := range an.Facts(call) {
				for _, v := range []ssa.Value{f.X, f.Y} {
					if v == nil {
						continue
					}
					if a := loadAddr(v); a != nil {
						if fa, ok := a.(*ssa.FieldAddr); ok && fieldNameOf(fa) == "ContentLength" && (f.Op == token.LEQ || f.Op == token.LSS || f.Op == token.GEQ || f.Op == token.GTR) {
							lenGuard = true
						}
					}
				}
			}
			// (b) r.Body = MaxBytesReader(...) executed before
			wrapped := false
			for _, b := range fn.Blocks {
				for _, in := range b.Instrs {
					st, ok := in.(*ssa.Store)
					if !ok {
						continue
					}
					fa, ok := st.Addr.(*ssa.FieldAddr)
					if !ok || fieldNameOf(fa) != "Body" {
						continue
					}
					for _, d := range an.Defs(st.Val) {
						if cc, ok := d.(*ssa.Call); ok && an.CalleeOf(cc).FullName() == "net/http.MaxBytesReader" && an.Before(st, call) {
							wrapped = true
						}
					}
				}
			}
			c.R.Check(lenGuard && wrapped, key, c.ipos(call), "ContentLength test and MaxBytesReader wrap both dominate the multipart reader",
				sprintf("upload size limit not enforced on every path to the multipart reader (ContentLength test dominates: %v, MaxBytesReader wrap dominates: %v)", lenGuard, wrapped))
		}
	}

	c.R.Rule("tempfile-pairing", "after every os.CreateTemp, on the err==nil edge, a defer that calls os.Remove on the created file's own Name() is registered before any return or loop back-edge; every os.Open result gets a deferred Close on its success edge", 2)
	for _, fn := range c.moduleFuncs(func(p string) bool { return p == pkgTransport }) {
		for _, call := range an.CallsIn(fn, func(_ ssa.CallInstruction, ci an.CalleeInfo) bool {
			n := ci.FullName()
			return n == "os.CreateTemp" || n == "os.Open" || n == "os.OpenFile" || n == "os.Create"
		}) {
			vc := call.(*ssa.Call)
			name := an.CalleeOf(call).FullName()
			key := shortFn(topFn(fn)) + "→" + name
			// success edge: err == nil
			var succ *ssa.BasicBlock
			for _, e := range an.CondEdges(fn) {
				if empty, ok := an.EmptinessFact(e.Fact, func(v ssa.Value) bool { cc := an.AllExtractOf(v, 1); return cc != nil && cc == ssa.CallInstruction(vc) }); ok && empty {
					succ = e.To
				}
			}
			if succ == nil {
				c.R.Bad(key, c.ipos(call), "the error result is not tested")
				continue
			}
			want := "os.Remove"
			if name != "os.CreateTemp" {
				want = "(*os.File).Close"
			}
			ok, why := c.deferBeforeExit(fn, succ, vc, want)
			c.R.Check(ok, key, c.ipos(call), "deferred "+want+" registered on the success edge before any exit", why)
		}
	}

	c.R.Rule("fresh-reader", "the Upload.File passed to each RawParams.AddUpload is produced inside the innermost loop around the call (a fresh reader per mapped path)", 2)
	for _, fn := range fns {
		for _, call := range an.CallsIn(fn, func(_ ssa.CallInstruction, ci an.CalleeInfo) bool {
			return ci.FullName() == "(*"+pkgGraphql+".RawParams).AddUpload"
		}) {
			key := shortFn(topFn(fn)) + "→AddUpload"
			up := call.Common().Args[1]
			// find the store to the File field of the Upload variable that reaches the call
			var fileVal ssa.Value
			var where ssa.Instruction
			if a := loadAddr(up); a != nil {
				for _, ref := range an.CellRefs(a) {
					fa, ok := ref.(*ssa.FieldAddr)
					if !ok || fieldNameOf(fa) != "File" {
						continue
					}
					for _, r2 := range an.Referrers(fa) {
						if st, ok := r2.(*ssa.Store); ok && st.Block() == call.Block() {
							fileVal, where = st.Val, st
						}
					}
				}
				// whole-struct store: upload = graphql.Upload{File: ...} compiles to field stores on a temp then a copy
				if fileVal == nil {
					for _, st := range an.CellStores(a) {
						if st.Block() != call.Block() {
							continue
						}
						if src := loadAddr(st.Val); src != nil {
							for _, ref := range an.CellRefs(src) {
								if fa, ok := ref.(*ssa.FieldAddr); ok && fieldNameOf(fa) == "File" {
									for _, r2 := range an.Referrers(fa) {
										if s2, ok := r2.(*ssa.Store); ok {
											fileVal, where = s2.Val, s2
										}
									}
								}
							}
						}
					}
				}
			}
			if fileVal == nil {
				// `upload := part.upload(reader, size)`: a helper of the package builds the Upload; its File is one of the helper's parameters
				cands := an.Defs(up)
				if a := loadAddr(up); a != nil {
					for _, st := range an.CellStores(a) {
						cands = append(cands, an.Defs(st.Val)...)
					}
				}
				for _, d := range cands {
					hc, ok := d.(*ssa.Call)
					if !ok || hc.Block() != call.Block() {
						continue
					}
					h := hc.Call.StaticCallee()
					if h == nil || h.Pkg == nil || h.Pkg.Pkg.Path() != pkgTransport || len(h.Blocks) == 0 {
						continue
					}
					for _, hb := range h.Blocks {
						for _, hin := range hb.Instrs {
							st, ok := hin.(*ssa.Store)
							if !ok {
								continue
							}
							fa, ok := st.Addr.(*ssa.FieldAddr)
							if !ok || fieldNameOf(fa) != "File" {
								continue
							}
							v := an.Strip(st.Val)
							if mi, ok := v.(*ssa.MakeInterface); ok {
								v = an.Strip(mi.X)
							}
							for k, prm := range h.Params {
								if v == ssa.Value(prm) && k < len(hc.Call.Args) {
									fileVal, where = hc.Call.Args[k], hc
								}
							}
						}
					}
				}
			}
			if fileVal == nil {
				c.R.Unknown(key, c.ipos(call), "could not find the assignment of Upload.File in the loop body")
				continue
			}
			// the value must be defined in a block inside the innermost loop containing the call
			fresh := true
			why := ""
			for _, d := range an.Defs(fileVal) {
				in, ok := d.(ssa.Instruction)
				if !ok {
					fresh, why = false, "File is "+d.Name()+", not created in the loop"
					continue
				}
				if !sameInnermostLoop(in.Block(), call.Block()) {
					fresh, why = false, "File value created at "+c.ipos(in)+" outside the per-path loop: all mapped paths share one reader"
				}
			}
			_ = where
			c.R.Check(fresh, key, c.ipos(call), "File reader allocated/opened inside the per-path loop", why)
		}
	}
}

// sameInnermostLoop: def is inside every loop (approximated by back-edge headers) that contains use...
// i.e. for the innermost loop header H that dominates use and is reachable from use, H also dominates def
// and def can reach use without leaving (def's block is dominated by H).
func sameInnermostLoop(def, use *ssa.BasicBlock) bool {
	var inner *ssa.BasicBlock
	for h := use; h != nil; h = h.Idom() {
		isHeader := false
		for _, p := range h.Preds {
			if h.Dominates(p) && an.Reach(use, nil)[p] {
				isHeader = true
			}
		}
		if isHeader {
			inner = h
			break
		}
	}
	if inner == nil {
		return true
	}
	return inner.Dominates(def) && an.Reach(def, nil)[use]
}

// deferBeforeExit: on every path from start to a Return / back-edge, a Defer whose callee (directly or as the
// body of a deferred closure) calls `want` on a value tied to call's result is executed first.
func (c *Ctx) deferBeforeExit(fn *ssa.Function, start *ssa.BasicBlock, res *ssa.Call, want string) (bool, string) {
	isGoodDefer := func(in ssa.Instruction) bool {
		d, ok := in.(*ssa.Defer)
		if !ok {
			return false
		}
		// for os.Remove: what is removed is the file that was created (its Name()), not some other path
		isCreated := func(v ssa.Value, bind map[*ssa.FreeVar]ssa.Value) bool {
			if want != "os.Remove" {
				return true
			}
			for depth := 0; depth < 5 && v != nil; depth++ {
				v = an.Strip(v)
				switch x := v.(type) {
				case *ssa.FreeVar:
					v = bind[x]
				case *ssa.UnOp:
					if a := x.X; x.Op == token.MUL {
						if fv, ok := a.(*ssa.FreeVar); ok {
							a = bind[fv]
						}
						if a == nil {
							return false
						}
						sts := an.CellStores(a)
						if len(sts) != 1 {
							return false
						}
						v = sts[0].Val
					} else {
						return false
					}
				case *ssa.Call:
					if an.CalleeOf(x).FullName() != "(*os.File).Name" {
						return false
					}
					cc := an.AllExtractOf(x.Call.Args[0], 0)
					return cc != nil && cc == ssa.CallInstruction(res)
				default:
					return false
				}
			}
			return false
		}
		if an.CalleeOf(d).FullName() == want {
			return len(d.Call.Args) == 0 || isCreated(d.Call.Args[0], nil) || want != "os.Remove"
		}
		if mc, ok := d.Call.Value.(*ssa.MakeClosure); ok {
			cl := mc.Fn.(*ssa.Function)
			bind := map[*ssa.FreeVar]ssa.Value{}
			for i, fv := range cl.FreeVars {
				if i < len(mc.Bindings) {
					bind[fv] = mc.Bindings[i]
				}
			}
			for _, b := range cl.Blocks {
				for _, x := range b.Instrs {
					if cc, ok := x.(ssa.CallInstruction); ok && an.CalleeOf(cc).FullName() == want {
						if want != "os.Remove" || isCreated(cc.Common().Args[0], bind) {
							return true
						}
					}
				}
			}
		}
		return false
	}
	seen := map[*ssa.BasicBlock]bool{}
	var walk func(b *ssa.BasicBlock) (bool, string)
	walk = func(b *ssa.BasicBlock) (bool, string) {
		if seen[b] {
			return true, ""
		}
		seen[b] = true
		for _, in := range b.Instrs {
			if isGoodDefer(in) {
				return true, ""
			}
			if r, ok := in.(*ssa.Return); ok {
				return false, "path from the success edge reaches the return at " + c.ipos(r) + " without a deferred " + want
			}
			if _, ok := in.(*ssa.RunDefers); ok {
				continue
			}
		}
		for _, s := range b.Succs {
			if s.Dominates(b) { // back edge: next iteration would lose the handle
				return false, "path from the success edge reaches the loop back-edge without a deferred " + want
			}
			if ok, why := walk(s); !ok {
				return false, why
			}
		}
		return true, ""
	}
	return walk(start)
}

// ------------------------------------------------------------------------------------------------

func c10LastResort(c *Ctx, rule string) {
	c.R.Rule(rule, "Server.ServeHTTP registers a deferred function that calls recover() before it calls Transport.Do (last line of defence for serialisation-time panics)", 1)
	fn := c.fn(pkgHandler, "*Server.ServeHTTP")
	if fn == nil {
		return
	}
	var rec *ssa.Defer
	for _, b := range fn.Blocks {
		for _, in := range b.Instrs {
			if d, ok := in.(*ssa.Defer); ok && deferRecovers(d) {
				rec = d
			}
		}
	}
	n := 0
	for _, call := range an.CallsIn(fn, func(_ ssa.CallInstruction, ci an.CalleeInfo) bool {
		return ci.FullName() == "("+pkgGraphql+".Transport).Do"
	}) {
		n++
		c.R.Check(rec != nil && an.Before(rec, call), "Server.ServeHTTP→Transport.Do", c.ipos(call), "deferred recover registered first", "Transport.Do is called without a previously registered deferred recover(): a panic while writing a response kills the connection goroutine with no error body")
	}
	if n == 0 {
		c.R.Fail("unresolved anchor: Server.ServeHTTP does not call Transport.Do")
	}
}

// deferRecovers: the deferred function (closure or named) calls the recover builtin directly.
func deferRecovers(d *ssa.Defer) bool {
	var fn *ssa.Function
	switch v := d.Call.Value.(type) {
	case *ssa.MakeClosure:
		fn = v.Fn.(*ssa.Function)
	case *ssa.Function:
		fn = v
	}
	if fn == nil {
		if sc := d.Call.StaticCallee(); sc != nil && len(sc.Blocks) > 0 {
			fn = sc // a method value deferred directly: recover() in its own body is effective
		}
	}
	return fn != nil && callsRecover(fn)
}

func callsRecover(fn *ssa.Function) bool {
	for _, b := range fn.Blocks {
		for _, in := range b.Instrs {
			if call, ok := in.(*ssa.Call); ok {
				if bi, ok := call.Call.Value.(*ssa.Builtin); ok && bi.Name() == "recover" {
					return true
				}
			}
		}
	}
	return false
}
