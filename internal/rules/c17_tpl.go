package rules

import (
	"go/types"
	"os"
	"path/filepath"
	"sort"
	"strconv"
	"strings"
	"text/template/parse"

	"golang.org/x/tools/go/ssa"
)

// c17TemplateNilChains: a generator template that selects through the result of a method which can return nil
// (`.TypeReference.Elem.GO`) makes text/template abort the whole generation with "nil pointer evaluating" for the
// schemas on which that method does return nil.  The methods are read from the program (exported, argument-free methods
// of the codegen packages with a pointer result and a `return nil`); every selection *through* one of them in a template
// must stand under an `if`/`with` of the same template that implies the result is there.
//
// guardsFor lists, per such method, the predicates of the same receiver that imply a non-nil result; each was confirmed
// by reading the method and is re-anchored on every run (a predicate that no longer exists fails the check).
var tplGuardsFor = map[string]map[string]string{
	"Elem": {
		"IsPtr":        "Elem returns a reference whenever GO is a *types.Pointer",
		"IsSlice":      "Elem returns a reference whenever IsSlice()",
		"IsPtrToSlice": "implies IsPtr",
		"IsPtrToPtr":   "implies IsPtr",
		"IsPtrToIntf":  "implies IsPtr",
	},
}

func c17TemplateNilChains(c *Ctx) {
	c.R.Rule("template-nil-chains-guarded", "generator templates: every selection through the result of a codegen method that can return nil (read from the program: exported, argument-free, pointer result, a `return nil`) stands under an if/with of the same template that implies the result is non-nil (the method itself, or a reviewed predicate of the same receiver)", 10)
	pkgs := []string{modPath("codegen"), modPath("codegen/config")}
	nilMethods := map[string]string{} // method name -> where
	for _, fn := range c.moduleFuncs(func(p string) bool { return p == pkgs[0] || p == pkgs[1] }) {
		if fn.Signature.Recv() == nil || fn.Parent() != nil || !fn.Object().Exported() {
			continue
		}
		sig := fn.Signature
		if sig.Params().Len() != 0 || sig.Results().Len() != 1 {
			continue
		}
		if _, isPtr := sig.Results().At(0).Type().Underlying().(*types.Pointer); !isPtr {
			continue
		}
		retNil := false
		for _, b := range fn.Blocks {
			for _, in := range b.Instrs {
				if r, ok := in.(*ssa.Return); ok && len(r.Results) == 1 {
					if k, ok := r.Results[0].(*ssa.Const); ok && k.IsNil() {
						retNil = true
					}
				}
			}
		}
		if retNil {
			nilMethods[fn.Name()] = shortFn(fn)
		}
	}
	if len(nilMethods) == 0 {
		c.R.Fail("template-nil-chains-guarded: no nil-returning template method found in codegen, codegen/config (Elem expected)")
		return
	}
	// re-anchor the reviewed predicates
	for m, gs := range tplGuardsFor {
		if _, ok := nilMethods[m]; !ok {
			c.R.Fail("template-nil-chains-guarded: reviewed method %s is no longer a nil-returning method of the codegen packages", m)
			continue
		}
		for g := range gs {
			if c.W.Func(modPath("codegen/config"), "*TypeReference."+g) == nil {
				c.R.Fail("unresolved anchor: predicate (*TypeReference).%s named as a guard for %s", g, m)
			}
		}
	}
	var names []string
	for m, w := range nilMethods {
		names = append(names, m+" ("+w+")")
	}
	sort.Strings(names)
	c.R.Note("nil-returning-methods", "-", strings.Join(names, ", "))

	// templates of the generator packages
	var files []string
	for _, rel := range []string{"codegen", "plugin/modelgen", "plugin/resolvergen", "plugin/federation", "plugin/stubgen"} {
		m, _ := filepath.Glob(filepath.Join(c.W.Snap.Dir, rel, "*.gotpl"))
		files = append(files, m...)
	}
	sort.Strings(files)
	if len(files) < 10 {
		c.R.Fail("template-nil-chains-guarded: only %d template files found", len(files))
	}
	for _, f := range files {
		b, err := os.ReadFile(f)
		if err != nil {
			c.R.Fail("template-nil-chains-guarded: %v", err)
			continue
		}
		rel := strings.TrimPrefix(f, c.W.Snap.Dir+"/")
		tr := parse.New(filepath.Base(f))
		tr.Mode = parse.SkipFuncCheck
		trees := map[string]*parse.Tree{}
		if _, err := tr.Parse(string(b), "{{", "}}", trees); err != nil {
			c.R.Bad(rel, rel, "template does not parse: "+err.Error())
			continue
		}
		var tnames []string
		for n := range trees {
			tnames = append(tnames, n)
		}
		sort.Strings(tnames)
		w := &tplNilWalker{c: c, file: rel, src: string(b), nilMethods: nilMethods, seen: map[string]int{}}
		for _, n := range tnames {
			if t := trees[n]; t != nil && t.Root != nil {
				w.walk(t.Root, map[string]bool{})
			}
		}
	}
}

type tplNilWalker struct {
	c          *Ctx
	file, src  string
	nilMethods map[string]string
	seen       map[string]int
}

// chainOf renders a field/variable/chain node as base + idents; ok=false for other nodes.
func chainOf(n parse.Node) (base string, idents []string, ok bool) {
	switch x := n.(type) {
	case *parse.FieldNode:
		return "", x.Ident, true
	case *parse.VariableNode:
		return x.Ident[0], x.Ident[1:], true
	case *parse.ChainNode:
		if b, ids, ok := chainOf(x.Node); ok {
			return b, append(append([]string{}, ids...), x.Field...), true
		}
		if _, isDot := x.Node.(*parse.DotNode); isDot {
			return "", x.Field, true
		}
	}
	return "", nil, false
}

func chainKey(base string, idents []string) string { return base + "." + strings.Join(idents, ".") }

// implied: what holds (non-nil keys) when the pipe is true (neg=false) or false (neg=true).
func (w *tplNilWalker) implied(n parse.Node, neg bool) map[string]bool {
	out := map[string]bool{}
	switch x := n.(type) {
	case *parse.PipeNode:
		if x == nil || len(x.Cmds) != 1 || len(x.Decl) != 0 {
			return out
		}
		return w.implied(x.Cmds[0], neg)
	case *parse.CommandNode:
		if len(x.Args) == 0 {
			return out
		}
		if id, ok := x.Args[0].(*parse.IdentifierNode); ok {
			switch id.Ident {
			case "and":
				if neg {
					return out
				}
				for _, a := range x.Args[1:] {
					for k := range w.implied(a, false) {
						out[k] = true
					}
				}
			case "or":
				if neg { // not (a or b) = not a and not b
					for _, a := range x.Args[1:] {
						for k := range w.implied(a, true) {
							out[k] = true
						}
					}
					return out
				}
				first := true
				for _, a := range x.Args[1:] {
					s := w.implied(a, false)
					if first {
						out, first = s, false
						continue
					}
					for k := range out {
						if !s[k] {
							delete(out, k)
						}
					}
				}
			case "not":
				if len(x.Args) == 2 {
					return w.implied(x.Args[1], !neg)
				}
			}
			return out
		}
		if len(x.Args) == 1 {
			return w.implied(x.Args[0], neg)
		}
	case *parse.FieldNode, *parse.VariableNode, *parse.ChainNode:
		if neg {
			return out
		}
		base, ids, ok := chainOf(n)
		if !ok || len(ids) == 0 {
			return out
		}
		last := ids[len(ids)-1]
		if _, isNil := w.nilMethods[last]; isNil {
			out[chainKey(base, ids)] = true
		}
		for m, gs := range tplGuardsFor {
			if _, ok := gs[last]; ok {
				out[chainKey(base, append(append([]string{}, ids[:len(ids)-1]...), m))] = true
			}
		}
	}
	return out
}

func merged(a, b map[string]bool) map[string]bool {
	out := map[string]bool{}
	for k := range a {
		out[k] = true
	}
	for k := range b {
		out[k] = true
	}
	return out
}

// withoutDot drops the facts about selections from the dot (the dot is rebound by with/range).
func withoutDot(a map[string]bool) map[string]bool {
	out := map[string]bool{}
	for k := range a {
		if !strings.HasPrefix(k, ".") {
			out[k] = true
		}
	}
	return out
}

func (w *tplNilWalker) checkNode(n parse.Node, guards map[string]bool) {
	switch x := n.(type) {
	case *parse.PipeNode:
		if x == nil {
			return
		}
		for _, cmd := range x.Cmds {
			w.checkNode(cmd, guards)
		}
	case *parse.CommandNode:
		// `and a b`: b is evaluated only when a is true
		if len(x.Args) > 0 {
			if id, ok := x.Args[0].(*parse.IdentifierNode); ok && (id.Ident == "and" || id.Ident == "or") {
				g := guards
				for _, a := range x.Args[1:] {
					w.checkNode(a, g)
					g = merged(g, w.implied(a, id.Ident == "or"))
				}
				return
			}
		}
		for _, a := range x.Args {
			w.checkNode(a, guards)
		}
	case *parse.FieldNode, *parse.VariableNode, *parse.ChainNode:
		base, ids, ok := chainOf(n)
		if !ok {
			if ch, isCh := n.(*parse.ChainNode); isCh {
				w.checkNode(ch.Node, guards)
			}
			return
		}
		for i := 0; i+1 < len(ids); i++ {
			if _, isNil := w.nilMethods[ids[i]]; !isNil {
				continue
			}
			key := chainKey(base, ids[:i+1])
			text := chainKey(base, ids)
			okey := w.file + ":" + text
			w.seen[okey]++
			if w.seen[okey] > 1 {
				okey += "#" + strconv.Itoa(w.seen[okey])
			}
			pos := w.file + ":" + strconv.Itoa(1+strings.Count(w.src[:int(n.Position())], "\n"))
			if guards[key] {
				w.c.R.OK(okey, pos, "under a condition that implies "+key+" is non-nil")
			} else {
				w.c.R.Bad(okey, pos, "the template selects through "+key+", which "+w.nilMethods[ids[i]]+" can return as nil, without an enclosing if/with that implies it is there: for such a type the generator aborts with `nil pointer evaluating`")
			}
		}
	}
}

func (w *tplNilWalker) walk(n parse.Node, guards map[string]bool) {
	switch x := n.(type) {
	case *parse.ListNode:
		if x == nil {
			return
		}
		for _, y := range x.Nodes {
			w.walk(y, guards)
		}
	case *parse.ActionNode:
		w.checkNode(x.Pipe, guards)
	case *parse.TemplateNode:
		w.checkNode(x.Pipe, guards)
	case *parse.IfNode:
		w.checkNode(x.Pipe, guards)
		w.walk(x.List, merged(guards, w.implied(x.Pipe, false)))
		w.walk(x.ElseList, merged(guards, w.implied(x.Pipe, true)))
	case *parse.WithNode:
		w.checkNode(x.Pipe, guards)
		w.walk(x.List, merged(withoutDot(guards), withoutDot(w.implied(x.Pipe, false))))
		w.walk(x.ElseList, guards)
	case *parse.RangeNode:
		w.checkNode(x.Pipe, guards)
		w.walk(x.List, withoutDot(guards))
		w.walk(x.ElseList, guards)
	}
}
