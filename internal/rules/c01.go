package rules

import (
	"bytes"
	"go/ast"
	"go/printer"
	"go/token"
	"go/types"
	"sort"
	"strings"

	gast "github.com/vektah/gqlparser/v2/ast"
	"golang.org/x/tools/go/ssa"

	"verif/internal/an"
)

func init() {
	register(&Property{
		ID:      "C01",
		NeedGen: true,
		Runtime: RuntimeCore,
		Run:     runC01,
		Explanation: "Null-propagation, single-error, path-context, directive-chain and layout-agreement structure of every materialised executor, cross-checked against the SDL the executor embeds (translation validation of " +
			"structure, not of values): (invalids) in each object function the case of field f increments Invalids under `value == graphql.Null` iff f is non-null in the SDL, and the object returns Null when " +
			"Invalids > 0 after Dispatch; (list-null) following each field's marshal chain, the function for a list type allocates the array, rejects a null element iff the element type is non-null and maps a nil " +
			"slice to Null iff the list is nullable, and the non-list marshalers report 'null not allowed' only for non-null types; (one-error) every error reported because a value is nil/Null is guarded by " +
			"!HasFieldError; (path-ctx) resolver/middleware calls and error reports of a field function are dominated by WithFieldContext(fc), list elements run under a FieldContext whose Index points at the " +
			"per-iteration index, each argument is coerced under WithPathContext(NewPathWithField(k)) for the same k it was read with; (directive-chain) directive closures form a chain in which each passes exactly " +
			"its predecessor as `next`, the innermost is the resolver/unmarshal closure and the outermost is invoked exactly once; (layout-agreement, informational only) textual differences of Exec, Complexity, Schema, processDeferredGroup, " +
			"introspectSchema/Type and the executionContext struct between the single-file and follow-schema layouts are reported as notes; (selections-private) the sub-selection merged for a response key reached through " +
			"several fragments is only ever appended to itself, never aliased to a slice of the parsed document. (error-scan-total) graphql.HasFieldError/GetFieldErrors examine every recorded error and equalPath every path segment: their loops visit exactly [0,len) and are left early only towards the answer one element can decide.",
		NotDecided:  "that responses equal the reference execution algorithm: field merging in CollectFields, @skip/@include evaluation, response-key order, __typename values, abstract-type dispatch — value-level",
		Assumptions: []string{"naming contract of generated functions (_Type, _Type_field, field_T_f_args) is used only to find anchors, never as the verdict"},
	})
}

func runC01(c *Ctx) {
	c01Invalids(c)
	c01ListNull(c)
	c01OneError(c)
	c01PathCtx(c)
	c01DirectiveChain(c)
	c01Layout(c)
	c01SelectionsPrivate(c)
	scanTotal(c)
	errorListOnce(c)
	valueWithVariables(c)
	c01Small(c)
	nilListIsNullOnly(c)
	layoutAgreement(c)
	genRound2(c)
	adapterWritesOnError(c)
	directiveArgAssertChecked(c)
	swappedFieldArgs(c, "swapped-field-args", pkgGraphql)
}

// c01SelectionsPrivate: the merged sub-selection of a collected field is a slice private to that CollectFields call.  Fields
// with the same response key reached through different fragments are merged by appending to CollectedField.Selections; if
// that slice ever is the parsed document's own slice, the append writes into the spare capacity of the shared AST and the
// sub-selections merged for one concrete type / one request show up in another's (same rule as C07/ast-immutable, which
// states the cross-request consequence).
func c01SelectionsPrivate(c *Ctx) {
	c.R.Rule("selections-private", "every assignment of CollectedField.Selections in package graphql is append(<that same Selections or nil>, ...): the merged selection set never aliases a slice of the parsed document", 1)
	n := 0
	for _, fn := range c.moduleFuncs(func(p string) bool { return p == pkgGraphql }) {
		for _, b := range fn.Blocks {
			for _, in := range b.Instrs {
				st, ok := in.(*ssa.Store)
				if !ok {
					continue
				}
				if ok2, key, why := selectionsStore(c, fn, st); ok2 {
					n++
					if why != "" {
						why += " — fields merged across fragments and type conditions receive another position's sub-selections"
					}
					c.R.Check(why == "", key, c.ipos(st), "extended from itself", why)
				}
			}
		}
	}
	if n < 1 {
		c.R.Fail("selections-private found only %d assignments of CollectedField.Selections", n)
	}
}

func isNullGlobal(v ssa.Value) bool {
	g, ok := loadGlobal(an.Strip(v))
	return ok && g.Name() == "Null" && g.Pkg != nil && g.Pkg.Pkg.Path() == pkgGraphql
}

// nullFact: f states v == graphql.Null (eq=true) or != (eq=false) for some v; returns v.
func nullFact(f an.Fact) (ssa.Value, bool, bool) {
	if f.Op != token.EQL && f.Op != token.NEQ {
		return nil, false, false
	}
	if isNullGlobal(f.Y) {
		return f.X, f.Op == token.EQL, true
	}
	if isNullGlobal(f.X) {
		return f.Y, f.Op == token.EQL, true
	}
	return nil, false, false
}

func isInvalidsIncrement(in ssa.Instruction) bool {
	if call, ok := in.(*ssa.Call); ok && an.CalleeOf(call).FullName() == "sync/atomic.AddUint32" {
		if fa, ok := call.Call.Args[0].(*ssa.FieldAddr); ok && fieldNameOf(fa) == "Invalids" {
			return true
		}
	}
	if st, ok := in.(*ssa.Store); ok {
		if fa, ok := st.Addr.(*ssa.FieldAddr); ok && fieldNameOf(fa) == "Invalids" {
			return true
		}
	}
	return false
}

func c01Invalids(c *Ctx) {
	c.R.Rule("invalids", "for every object type T and field f of the embedded SDL: the `case f` region of _T (including the innerFunc closure it creates) increments FieldSet.Invalids under `value == graphql.Null` iff f is non-null; _T returns graphql.Null on Invalids > 0 after Dispatch", 100)
	total := 0
	for _, g := range c.Gen {
		sch := c.schema(g)
		if sch == nil {
			continue
		}
		var names []string
		for n := range sch.Types {
			names = append(names, n)
		}
		sort.Strings(names)
		for _, tn := range names {
			def := sch.Types[tn]
			if def.Kind != gast.Object || def == sch.Subscription {
				continue
			}
			fn := c.genFunc(g, "_"+tn)
			if fn == nil {
				c.R.Bad("gen:"+g.Name+"/_"+tn, g.Spec.Dir, "object type "+tn+" of the SDL has no object function")
				continue
			}
			cases := switchCases(fn, func(v ssa.Value) bool {
				fa, ok := loadAddr(v).(*ssa.FieldAddr)
				if ok && fieldNameOf(fa) == "Name" {
					return true
				}
				if f, ok := an.Strip(v).(*ssa.Field); ok && fieldName2(f) == "Name" {
					return true
				}
				return false
			})
			heads := map[*ssa.BasicBlock]bool{}
			for _, b := range cases {
				heads[b] = true
			}
			for _, f := range def.Fields {
				if isReservedName(f.Name) {
					continue
				}
				total++
				key := "gen:" + g.Name + "/_" + tn + "/case:" + f.Name
				blk, ok := cases[f.Name]
				if !ok {
					c.R.Bad(key, c.pos(fn.Pos()), "the object function has no case for SDL field "+f.Name+": selecting it panics with 'unknown field'")
					continue
				}
				region := an.Reach(blk, func(b *ssa.BasicBlock) bool { return b != blk && (heads[b] || isLoopHeader(b)) })
				has := false
				scan := func(f2 *ssa.Function, blocks map[*ssa.BasicBlock]bool) {
					for _, b := range f2.Blocks {
						if blocks != nil && (!blocks[b] || (b != blk && (heads[b] || isLoopHeader(b)))) {
							continue
						}
						for _, in := range b.Instrs {
							if !isInvalidsIncrement(in) {
								continue
							}
							for _, ft := range an.Facts(in) {
								if _, eq, ok := nullFact(ft); ok && eq {
									has = true
								}
							}
						}
					}
				}
				scan(fn, region)
				for b := range region {
					if b != blk && (heads[b] || isLoopHeader(b)) {
						continue
					}
					for _, in := range b.Instrs {
						if mc, ok := in.(*ssa.MakeClosure); ok {
							for _, cl := range an.WithClosures(mc.Fn.(*ssa.Function)) {
								scan(cl, nil)
							}
						}
					}
				}
				switch {
				case f.Type.NonNull && !has:
					c.R.Bad(key, c.pos(fn.Pos()), "field "+tn+"."+f.Name+" is non-null in the SDL but a null value does not mark the object invalid: the null is delivered instead of propagating to the nearest nullable ancestor")
				case !f.Type.NonNull && has:
					c.R.Bad(key, c.pos(fn.Pos()), "field "+tn+"."+f.Name+" is nullable in the SDL but a null value marks the object invalid: one nullable field's failure wipes out its siblings")
				default:
					c.R.OK(key, c.pos(fn.Pos()), map[bool]string{true: "non-null: bubbles", false: "nullable: stays local"}[f.Type.NonNull])
				}
			}
			// object-level: return Null on Invalids > 0, after Dispatch
			okRet := false
			var disp ssa.Instruction
			for _, call := range an.CallsIn(fn, func(_ ssa.CallInstruction, ci an.CalleeInfo) bool {
				return strings.HasSuffix(ci.FullName(), "graphql.FieldSet).Dispatch")
			}) {
				disp = call
			}
			for _, r := range an.Returns(fn) {
				if !isNullGlobal(r.Results[0]) {
					continue
				}
				for _, ft := range an.Facts(r) {
					if fa, ok := loadAddr(ft.X).(*ssa.FieldAddr); ok && fieldNameOf(fa) == "Invalids" && ft.Op == token.GTR {
						if disp != nil && an.Before(disp, r) {
							okRet = true
						}
					}
				}
			}
			c.R.Check(okRet, "gen:"+g.Name+"/_"+tn+"/null-when-invalid", c.pos(fn.Pos()), "returns Null on Invalids > 0 after Dispatch", "the object function does not return null when one of its non-null fields failed (or tests before Dispatch joined the concurrent fields)")
		}
	}
	c.R.SetFloor(total)
	if total < 100 {
		c.R.Fail("invalids examined only %d fields", total)
	}
}

func isLoopHeader(b *ssa.BasicBlock) bool {
	for _, p := range b.Preds {
		if b.Dominates(p) {
			return true
		}
	}
	return false
}

// ------------------------------------------------------------------------------------------------

type marshalCheck struct {
	c    *Ctx
	g    *GenPkg
	memo map[string]string // key func|type -> "" ok / reason
	n    int
}

func typeStr(t *gast.Type) string { return t.String() }

// finalMarshalCallee: the generated marshal function whose result the function returns.
func finalMarshalCallee(fn *ssa.Function) *ssa.Function {
	for _, f := range an.WithClosures(fn) {
		for _, r := range an.Returns(f) {
			if len(r.Results) != 1 {
				continue
			}
			for _, d := range an.Defs(r.Results[0]) {
				if call, ok := d.(*ssa.Call); ok {
					if callee := call.Call.StaticCallee(); callee != nil && strings.HasPrefix(callee.Name(), "marshal") {
						return callee
					}
				}
			}
		}
	}
	return nil
}

func (m *marshalCheck) check(fn *ssa.Function, t *gast.Type, depth int) string {
	key := fn.Name() + "|" + typeStr(t)
	if r, ok := m.memo[key]; ok {
		return r
	}
	m.memo[key] = ""
	m.n++
	res := m.check1(fn, t, depth)
	m.memo[key] = res
	return res
}

func (m *marshalCheck) check1(fn *ssa.Function, t *gast.Type, depth int) string {
	if depth > 8 {
		return ""
	}
	// delegating wrappers (pointer-to-slice, pointer-to-pointer): single return of another marshal call, no array
	makesArray := false
	for _, b := range fn.Blocks {
		for _, in := range b.Instrs {
			if ms, ok := in.(*ssa.MakeSlice); ok && strings.HasSuffix(ms.Type().String(), "graphql.Array") {
				makesArray = true
			}
		}
	}
	if t.Elem == nil {
		// named type: 'null not allowed' error only for non-null
		hasErr := false
		for _, f := range an.WithClosures(fn) {
			for _, call := range an.CallsIn(f, func(_ ssa.CallInstruction, ci an.CalleeInfo) bool {
				return strings.HasSuffix(ci.FullName(), "graphql.OperationContext).Errorf")
			}) {
				_ = call
				hasErr = true
			}
		}
		if makesArray {
			return fn.Name() + " builds a list for the named type " + typeStr(t)
		}
		if hasErr && !t.NonNull {
			return fn.Name() + " reports 'null not allowed' for the nullable type " + typeStr(t)
		}
		if !hasErr && t.NonNull {
			// a delegating wrapper is fine: it must delegate to a function that does
			if d := finalMarshalCallee(fn); d != nil && d != fn {
				return m.check(d, t, depth+1)
			}
			// Go values that cannot be nil (structs, basic types, Marshaler value types) need no check
			pt := fn.Params[len(fn.Params)-1].Type().Underlying()
			switch pt.(type) {
			case *types.Pointer, *types.Interface, *types.Map, *types.Slice:
				return fn.Name() + " accepts a nil " + pt.String() + " for the non-null type " + typeStr(t) + " without reporting an error"
			}
		}
		return ""
	}
	if !makesArray {
		if d := finalMarshalCallee(fn); d != nil && d != fn {
			return m.check(d, t, depth+1)
		}
		return fn.Name() + " does not build a list for the list type " + typeStr(t)
	}
	// (b) element scan
	hasScan, nilNull := false, false
	for _, r := range an.Returns(fn) {
		if !isNullGlobal(r.Results[0]) {
			continue
		}
		for _, f := range an.Facts(r) {
			if _, eq, ok := nullFact(f); ok && eq {
				hasScan = true
			}
			if empty, ok := an.EmptinessFact(f, func(v ssa.Value) bool {
				for _, d := range an.Defs(v) {
					if p, isP := d.(*ssa.Parameter); !isP || p != fn.Params[len(fn.Params)-1] {
						return false
					}
				}
				return true
			}); ok && empty && f.Op == token.EQL {
				nilNull = true
			}
		}
	}
	if hasScan != t.Elem.NonNull {
		if t.Elem.NonNull {
			return fn.Name() + " does not reject null elements although " + typeStr(t) + " has non-null elements: a failed element is delivered as null instead of nulling the list"
		}
		return fn.Name() + " nulls the whole list when one element of the nullable-element list " + typeStr(t) + " is null"
	}
	if nilNull == t.NonNull {
		if t.NonNull {
			return fn.Name() + " maps a nil slice to null although " + typeStr(t) + " is non-null"
		}
		return fn.Name() + " does not map a nil slice to null for the nullable list " + typeStr(t)
	}
	// (d) element marshaler
	var elem *ssa.Function
	for _, f := range an.WithClosures(fn) {
		for _, b := range f.Blocks {
			for _, in := range b.Instrs {
				st, ok := in.(*ssa.Store)
				if !ok {
					continue
				}
				if _, isIdx := st.Addr.(*ssa.IndexAddr); !isIdx {
					continue
				}
				if call, ok := st.Val.(*ssa.Call); ok {
					if callee := call.Call.StaticCallee(); callee != nil && strings.HasPrefix(callee.Name(), "marshal") {
						elem = callee
					}
				}
			}
		}
	}
	if elem == nil {
		return fn.Name() + ": element marshaler not found"
	}
	return m.check(elem, t.Elem, depth+1)
}

func c01ListNull(c *Ctx) {
	c.R.Rule("list-null", "for every field of every object type: following the marshal function its field function returns through, a list type's marshaler builds the array, has the `element == Null → return Null` scan iff the element type is non-null, maps nil to Null iff the list is nullable, and named-type marshalers report 'null not allowed' iff the type is non-null", 100)
	total := 0
	for _, g := range c.Gen {
		sch := c.schema(g)
		if sch == nil {
			continue
		}
		m := &marshalCheck{c: c, g: g, memo: map[string]string{}}
		var names []string
		for n := range sch.Types {
			names = append(names, n)
		}
		sort.Strings(names)
		for _, tn := range names {
			def := sch.Types[tn]
			if def.Kind != gast.Object || def == sch.Subscription {
				continue
			}
			for _, f := range def.Fields {
				if isReservedName(f.Name) {
					continue
				}
				ff := c.genFunc(g, "_"+tn+"_"+f.Name)
				key := "gen:" + g.Name + "/_" + tn + "_" + f.Name + "/marshal-chain"
				if ff == nil {
					c.R.Bad(key, g.Spec.Dir, "no field function for SDL field "+tn+"."+f.Name)
					continue
				}
				total++
				mf := finalMarshalCallee(ff)
				if mf == nil {
					c.R.Unknown(key, c.pos(ff.Pos()), "the field function does not return through a generated marshal function")
					continue
				}
				why := m.check(mf, f.Type, 0)
				c.R.Check(why == "", key, c.pos(ff.Pos()), "marshal chain agrees with "+typeStr(f.Type), why)
			}
		}
	}
	c.R.SetFloor(total)
	if total < 100 {
		c.R.Fail("list-null examined only %d fields", total)
	}
}

// ------------------------------------------------------------------------------------------------

func c01OneError(c *Ctx) {
	c.R.Rule("one-error", "every OperationContext.Errorf that is control-dependent on the completed value being nil / graphql.Null is edge-dominated by !graphql.HasFieldError(ctx, fc): the failure that produced the null is not reported a second time", 100)
	total := 0
	for _, g := range c.Gen {
		for _, fn := range c.genFuncs(g) {
			for _, call := range an.CallsIn(fn, func(_ ssa.CallInstruction, ci an.CalleeInfo) bool {
				return strings.HasSuffix(ci.FullName(), "graphql.OperationContext).Errorf")
			}) {
				dependsOnNull, guarded := false, false
				for _, f := range an.Facts(call) {
					if _, eq, ok := nullFact(f); ok && eq {
						dependsOnNull = true
					}
					if empty, ok := an.EmptinessFact(f, func(v ssa.Value) bool { return !an.IsErrorType(v.Type()) }); ok && empty && f.Op == token.EQL {
						dependsOnNull = true // (an `err == nil` edge is not "the value is null")
					}
					if f.Op == token.ILLEGAL && f.Neg {
						if cc, ok := f.X.(*ssa.Call); ok && an.CalleeOf(cc).FullName() == pkgGraphql+".HasFieldError" {
							guarded = true
						}
					}
				}
				if !dependsOnNull {
					continue
				}
				total++
				c.R.Check(guarded, "gen:"+g.Name+"/"+topFn(fn).Name()+"/null-error", c.ipos(call), "guarded by !HasFieldError", "a 'must not be null' style error is reported without testing HasFieldError: a resolver error that nulled the value yields two errors for one failure")
			}
		}
	}
	c.R.SetFloor(total)
	if total < 100 {
		c.R.Fail("one-error examined only %d error sites", total)
	}
}

// ------------------------------------------------------------------------------------------------

func c01PathCtx(c *Ctx) {
	c.R.Rule("path-ctx", "field functions: the middleware call and every Error/Errorf are dominated by WithFieldContext(ctx, fc) with fc from their field-context function; list marshalers: each element runs under WithFieldContext of a FieldContext whose Index is the address of the per-iteration index; args functions: each coercion is dominated by WithPathContext(NewPathWithField(k)) with k the key the raw argument was read with", 100)
	nArgs := 0
	total := 0
	for _, g := range c.Gen {
		for _, fn := range c.genFuncs(g) {
			if fn.Parent() != nil {
				continue
			}
			name := fn.Name()
			switch {
			case strings.HasPrefix(name, "_") && isFieldFuncSig(fn):
				// WithFieldContext(ctx, fc)
				var wfc ssa.Instruction
				for _, call := range an.CallsIn(fn, func(_ ssa.CallInstruction, ci an.CalleeInfo) bool {
					return ci.FullName() == pkgGraphql+".WithFieldContext"
				}) {
					fcArg := call.Common().Args[1]
					if cc := an.AllExtractOf(fcArg, 0); cc != nil && strings.Contains(an.CalleeOf(cc).FullName(), "fieldContext_") {
						wfc = call
					}
				}
				total++
				key := "gen:" + g.Name + "/" + name + "/field-path"
				if wfc == nil {
					c.R.Bad(key, c.pos(fn.Pos()), "the field function never installs its FieldContext: errors below it carry the parent's path")
					continue
				}
				bad := ""
				for _, f := range an.WithClosures(fn) {
					for _, b := range f.Blocks {
						for _, in := range b.Instrs {
							call, ok := in.(*ssa.Call)
							if !ok {
								continue
							}
							n := an.CalleeOf(call).FullName()
							isErr := strings.HasSuffix(n, "graphql.OperationContext).Error") || strings.HasSuffix(n, "graphql.OperationContext).Errorf")
							isMw := strings.HasSuffix(n, "_fieldMiddleware") || strings.HasPrefix(topFn(f).Name(), "_") && n == "" && isMiddlewareCall(call)
							if !isErr && !isMw {
								continue
							}
							if f == fn && !an.Before(wfc, in) {
								bad = "the call at " + c.ipos(in) + " runs before WithFieldContext(ctx, fc)"
							}
							if f != fn && !closureCreatedAfter(outermostClosure(f, fn), wfc) {
								bad = "a closure that reports errors is created before WithFieldContext(ctx, fc)"
							}
						}
					}
				}
				c.R.Check(bad == "", key, c.ipos(wfc), "context installed before the resolver chain and every error report", bad)
			case (strings.HasPrefix(name, "field_") || strings.HasPrefix(name, "dir_")) && strings.Contains(name, "_args"):
				// the aggregate args function and the per-argument functions (field_T_f_argsName) alike
				n0 := total
				c.argsPath(g, fn, &total)
				nArgs += total - n0
			}
		}
		// list marshalers
		for _, fn := range c.genFuncs(g) {
			if fn.Parent() != nil || !strings.HasPrefix(fn.Name(), "marshal") {
				continue
			}
			hasWG := false
			for _, b := range fn.Blocks {
				for _, in := range b.Instrs {
					if al, ok := in.(*ssa.Alloc); ok && an.NamedIs(al.Type(), "sync", "WaitGroup") {
						hasWG = true
					}
				}
			}
			if !hasWG {
				continue
			}
			total++
			key := "gen:" + g.Name + "/" + fn.Name() + "/element-path"
			ok := false
			for _, call := range an.CallsIn(fn, func(_ ssa.CallInstruction, ci an.CalleeInfo) bool {
				return ci.FullName() == pkgGraphql+".WithFieldContext"
			}) {
				// fc literal: store to field Index of an Alloc of FieldContext; value is the address of a per-iteration cell (Alloc inside the loop)
				for _, d := range an.Defs(call.Common().Args[1]) {
					al, isAl := d.(*ssa.Alloc)
					if !isAl {
						continue
					}
					for _, r := range an.Referrers(al) {
						fa, isFA := r.(*ssa.FieldAddr)
						if !isFA || fieldNameOf(fa) != "Index" {
							continue
						}
						for _, r2 := range an.Referrers(fa) {
							if st, isSt := r2.(*ssa.Store); isSt {
								if cell, isCell := st.Val.(*ssa.Alloc); isCell && an.CanReach(cell, cell) && sameInnermostLoop(cell.Block(), call.Block()) {
									ok = true
								}
							}
						}
					}
				}
			}
			if !ok {
				// `elemCtx := func(i int) context.Context { return WithFieldContext(ctx, &FieldContext{Index: &i, …}) }`: the
				// index cell is the parameter of a function literal — fresh for every call
				for _, cl := range an.WithClosures(fn) {
					if cl == fn {
						continue
					}
					for _, call := range an.CallsIn(cl, func(_ ssa.CallInstruction, ci an.CalleeInfo) bool {
						return ci.FullName() == pkgGraphql+".WithFieldContext"
					}) {
						if call.Parent() != cl {
							continue
						}
						for _, d := range an.Defs(call.Common().Args[1]) {
							al, isAl := d.(*ssa.Alloc)
							if !isAl {
								continue
							}
							for _, r := range an.Referrers(al) {
								fa, isFA := r.(*ssa.FieldAddr)
								if !isFA || fieldNameOf(fa) != "Index" {
									continue
								}
								for _, r2 := range an.Referrers(fa) {
									st, isSt := r2.(*ssa.Store)
									if !isSt {
										continue
									}
									cell, isCell := st.Val.(*ssa.Alloc)
									if !isCell || cell.Parent() != cl {
										continue
									}
									for _, cs := range an.CellStores(cell) {
										if prm, isP := cs.Val.(*ssa.Parameter); isP && prm.Parent() == cl && len(an.CellStores(cell)) == 1 {
											ok = true
										}
									}
								}
							}
						}
					}
				}
			}
			c.R.Check(ok, key, c.pos(fn.Pos()), "FieldContext.Index = &i of the iteration", "list elements do not run under a FieldContext carrying their own index: errors inside elements lose the index from their path (or all share one index variable)")
		}
	}
	c.R.SetFloor(total)
	if nArgs < 20 {
		c.R.Fail("path-ctx examined only %d argument lookups (the per-argument functions were not found)", nArgs)
	}
	if total < 100 {
		c.R.Fail("path-ctx examined only %d functions", total)
	}
}

func isMiddlewareCall(call *ssa.Call) bool {
	fa, ok := loadAddr(call.Call.Value).(*ssa.FieldAddr)
	return ok && (fieldNameOf(fa) == "ResolverMiddleware" || fieldNameOf(fa) == "RootResolverMiddleware")
}

// outermostClosure: the ancestor of f that is a direct child of top.
func outermostClosure(f, top *ssa.Function) *ssa.Function {
	for f.Parent() != nil && f.Parent() != top {
		f = f.Parent()
	}
	return f
}

func (c *Ctx) argsPath(g *GenPkg, fn *ssa.Function, total *int) {
	// for each `tmp, ok := rawArgs[k]` (Lookup with constant key): the coercion of tmp is dominated by WithPathContext(ctx, NewPathWithField(k))
	for _, b := range fn.Blocks {
		for _, in := range b.Instrs {
			lk, ok := in.(*ssa.Lookup)
			if !ok || !lk.CommaOk {
				continue
			}
			k, isC := an.ConstString(lk.Index)
			if !isC {
				continue
			}
			*total++
			key := "gen:" + g.Name + "/" + fn.Name() + "/arg:" + k
			// the WithPathContext call for this argument
			var wp ssa.Instruction
			same := false
			for _, call := range an.CallsIn(fn, func(_ ssa.CallInstruction, ci an.CalleeInfo) bool {
				return ci.FullName() == pkgGraphql+".WithPathContext"
			}) {
				for _, d := range an.Defs(call.Common().Args[1]) {
					if cc, ok := d.(*ssa.Call); ok && an.CalleeOf(cc).FullName() == pkgGraphql+".NewPathWithField" {
						if s, ok := an.ConstString(cc.Call.Args[0]); ok && s == k {
							wp, same = call, true
						}
					}
				}
			}
			if !same {
				c.R.Bad(key, c.ipos(lk), "argument "+k+" is not coerced under a path context named after it: coercion errors carry the wrong argument name")
				continue
			}
			// every use of the looked-up value in a call is after wp
			bad := ""
			for _, r := range an.Referrers(lk) {
				ex, ok := r.(*ssa.Extract)
				if !ok || ex.Index != 0 {
					continue
				}
				for _, u := range an.Referrers(ex) {
					if call, ok := u.(*ssa.Call); ok && call.Call.StaticCallee() != nil && !an.Before(wp, call) {
						bad = "the value of argument " + k + " is coerced at " + c.ipos(call) + " before its path context is installed"
					}
				}
			}
			c.R.Check(bad == "", key, c.ipos(lk), "coerced under WithPathContext(NewPathWithField("+k+"))", bad)
		}
	}
}

// ------------------------------------------------------------------------------------------------

// directiveCallIn: the dynamic call through a DirectiveRoot field inside closure f, if any.
func directiveCallIn(g *GenPkg, f *ssa.Function) *ssa.Call {
	var out *ssa.Call
	for _, b := range f.Blocks {
		for _, in := range b.Instrs {
			if call, ok := in.(*ssa.Call); ok && userCallKind(g, call) == "directive" {
				out = call
			}
		}
	}
	return out
}

func closureOf(v ssa.Value) *ssa.Function {
	for _, d := range an.Defs(v) {
		if mc, ok := d.(*ssa.MakeClosure); ok {
			return mc.Fn.(*ssa.Function)
		}
	}
	return nil
}

func c01DirectiveChain(c *Ctx) {
	c.R.Rule("directive-chain", "in every function that builds directive closures: each directive closure makes exactly one directive call and passes as `next` exactly one closure of the same function; following `next` from each outermost closure reaches a non-directive closure (the resolver / unmarshal step) without repetition; each outermost closure is invoked exactly once and no inner closure is invoked directly", 20)
	total := 0
	for _, g := range c.Gen {
		for _, fn := range c.genFuncs(g) {
			// directive closures created directly in fn
			var ds []*ssa.Function
			for _, a := range fn.AnonFuncs {
				if directiveCallIn(g, a) != nil {
					ds = append(ds, a)
				}
			}
			if len(ds) == 0 {
				continue
			}
			next := map[*ssa.Function]*ssa.Function{}
			isNext := map[*ssa.Function]bool{}
			folded := map[*ssa.Function]bool{}
			bad := ""
			for _, d := range ds {
				n := 0
				for _, b := range d.Blocks {
					for _, in := range b.Instrs {
						if call, ok := in.(*ssa.Call); ok && userCallKind(g, call) == "directive" {
							n++
						}
					}
				}
				if n != 1 {
					bad = sprintf("closure %s makes %d directive calls", d.Name(), n)
				}
				call := directiveCallIn(g, d)
				// the `next` argument: the argument of func(ctx)(any, error) type
				var nx *ssa.Function
				cnt := 0
				for _, a := range call.Call.Args {
					sig, ok := a.Type().Underlying().(*types.Signature)
					if !ok || sig.Params().Len() != 1 || sig.Results().Len() != 2 {
						continue
					}
					cnt++
					nx = closureOf(a)
				}
				if cnt == 1 && (nx == nil || nx == d || foldForm(fn, d, call) == "") {
					// fold form (_fieldMiddleware): `n := next; next = func(..) { directive(ctx, obj, n, ..) }` inside a loop, then ResolverMiddleware(ctx, next)
					if why := foldForm(fn, d, call); why == "" {
						folded[d] = true
						continue
					} else {
						bad = why
						continue
					}
				}
				if cnt != 1 || nx == nil || nx.Parent() != fn {
					bad = "closure " + d.Name() + " does not pass exactly one sibling closure as next (" + foldForm(fn, d, call) + ")"
					continue
				}
				next[d] = nx
				isNext[nx] = true
			}
			// tops
			ntop := 0
			for _, d := range ds {
				if isNext[d] {
					continue
				}
				if folded[d] {
					ntop++
					total++
					continue
				}
				ntop++
				total++
				// walk
				seen := map[*ssa.Function]bool{}
				cur := d
				for next[cur] != nil {
					if seen[cur] {
						bad = "directive closures form a cycle"
						break
					}
					seen[cur] = true
					cur = next[cur]
				}
				if directiveCallIn(g, cur) != nil && next[cur] == nil {
					bad = "the chain does not end in a resolver/unmarshal closure (fold form rejected: " + foldForm(fn, cur, directiveCallIn(g, cur)) + ")"
				}
				// invoked exactly once in fn
				calls := 0
				for _, b := range fn.Blocks {
					for _, in := range b.Instrs {
						if call, ok := in.(*ssa.Call); ok && call.Call.StaticCallee() == nil && closureOf(call.Call.Value) == d {
							calls++
						}
						if call, ok := in.(*ssa.Call); ok {
							if mc, ok := call.Call.Value.(*ssa.MakeClosure); ok && mc.Fn == d {
								calls++
							}
						}
					}
				}
				if calls != 1 && bad == "" {
					bad = sprintf("the outermost directive closure is invoked %d times (the directive and the resolver must run exactly once)", calls)
				}
			}
			// inner closures are not called directly by fn
			for _, b := range fn.Blocks {
				for _, in := range b.Instrs {
					if call, ok := in.(*ssa.Call); ok && call.Call.StaticCallee() == nil {
						if cl := closureOf(call.Call.Value); cl != nil && isNext[cl] {
							bad = "an inner closure of the directive chain is invoked directly, bypassing the directives outside it"
						}
					}
				}
			}
			if ntop == 0 {
				bad = "no outermost directive closure"
			}
			c.R.Check(bad == "", "gen:"+g.Name+"/"+topFn(fn).Name()+"/chain@"+fn.Name(), c.pos(fn.Pos()), sprintf("%d directive closure(s) in %d chain(s)", len(ds), ntop), bad)
		}
	}
	if total < 20 {
		c.R.Fail("directive-chain examined only %d chains", total)
	}
}

// ------------------------------------------------------------------------------------------------

func c01Layout(c *Ctx) {
	c.R.Rule("layout-agreement", "informational cross-check (never a violation): Exec, Complexity, Schema, processDeferredGroup, introspectSchema, introspectType and the executionContext struct of the single-file and the follow-schema materialisation are compared textually; a difference is reported as a note because every semantic rule is applied to both layouts separately", 0)
	var a, b *GenPkg
	for _, g := range c.Gen {
		switch g.Name {
		case "singlefile":
			a = g
		case "followschema":
			b = g
		}
	}
	if a == nil || b == nil {
		c.R.Fail("layout-agreement needs the singlefile and followschema materialisations")
		return
	}
	render := func(g *GenPkg, name string) string {
		tp := c.W.TPkg(g.Path)
		var out string
		for _, f := range tp.Syntax {
			for _, d := range f.Decls {
				switch x := d.(type) {
				case *ast.FuncDecl:
					if x.Name.Name == name {
						var buf bytes.Buffer
						printer.Fprint(&buf, token.NewFileSet(), stripPos(x))
						out = buf.String()
					}
				case *ast.GenDecl:
					for _, s := range x.Specs {
						if ts, ok := s.(*ast.TypeSpec); ok && ts.Name.Name == name {
							var buf bytes.Buffer
							printer.Fprint(&buf, token.NewFileSet(), ts)
							out = buf.String()
						}
					}
				}
			}
		}
		return out
	}
	for _, name := range []string{"Exec", "Complexity", "Schema", "processDeferredGroup", "introspectSchema", "introspectType", "executionContext"} {
		x, y := render(a, name), render(b, name)
		switch {
		case x == "" || y == "":
			c.R.Note(name, "-", "declaration not found under this name in one of the layouts")
		case x != y:
			// informational only: textual drift between the two templates is not a violation by itself (an equivalent rewrite of
			// one of them is behaviour-preserving); every semantic rule runs on both layouts independently
			c.R.Note(name, a.Spec.Dir+" vs "+b.Spec.Dir, "the two exec layouts generate different text for "+name+" (first difference: "+firstDiff(x, y)+"); both are checked separately by the semantic rules")
		default:
			c.R.OK(name, a.Spec.Dir+" = "+b.Spec.Dir, sprintf("identical (%d bytes)", len(x)))
		}
	}
}

func stripPos(fd *ast.FuncDecl) *ast.FuncDecl {
	cp := *fd
	cp.Doc = nil
	return &cp
}

func firstDiff(a, b string) string {
	la, lb := strings.Split(a, "\n"), strings.Split(b, "\n")
	for i := 0; i < len(la) && i < len(lb); i++ {
		if strings.TrimSpace(la[i]) != strings.TrimSpace(lb[i]) {
			return strings.TrimSpace(la[i]) + "  ≠  " + strings.TrimSpace(lb[i])
		}
	}
	return "length differs"
}

// foldForm checks the loop-built chain of _fieldMiddleware: closure d (created in a loop of fn) passes as next a captured
// copy of the accumulator variable taken before the accumulator is overwritten with d, and after the loop the accumulator
// is handed to the resolver middleware exactly once.
func foldForm(fn, d *ssa.Function, dcall *ssa.Call) string {
	// the next argument inside d is a load of a free variable `n`
	var nArg ssa.Value
	for _, a := range dcall.Call.Args {
		if sig, ok := a.Type().Underlying().(*types.Signature); ok && sig.Params().Len() == 1 && sig.Results().Len() == 2 {
			nArg = a
		}
	}
	if nArg == nil {
		return "no next argument"
	}
	cell := an.RootAlloc(loadAddr(nArg))
	nAlloc, ok := cell.(*ssa.Alloc)
	if !ok || nAlloc.Parent() != fn {
		return "the directive's next is not a variable of the enclosing function"
	}
	sts := an.CellStores(nAlloc)
	if len(sts) != 1 {
		return "the saved next is assigned more than once"
	}
	// n := next : the saved value is the accumulator — the function's Resolver parameter or one of the directive closures built
	// in earlier iterations (go/ssa represents the reassigned parameter as a phi, or as a cell when it is captured)
	var mk *ssa.MakeClosure
	for _, b := range fn.Blocks {
		for _, in := range b.Instrs {
			if mc, ok := in.(*ssa.MakeClosure); ok && mc.Fn == d {
				mk = mc
			}
		}
	}
	if mk == nil || !an.CanReach(mk, mk) {
		return "the directive closure is not created in the loop"
	}
	isAccumulator := func(v ssa.Value) (hasParam, hasSelf bool, ok bool) {
		ok = true
		for _, dv := range an.Defs(v) {
			switch x := dv.(type) {
			case *ssa.Parameter:
				if sig, isSig := x.Type().Underlying().(*types.Signature); isSig && sig.Params().Len() == 1 && sig.Results().Len() == 2 {
					hasParam = true
				} else {
					ok = false
				}
			case *ssa.MakeClosure:
				if x == mk {
					hasSelf = true
				}
				if x.Fn.(*ssa.Function).Parent() != fn {
					ok = false
				}
			default:
				ok = false
			}
		}
		return
	}
	hp, _, okAcc := isAccumulator(sts[0].Val)
	if !okAcc || !hp {
		return "the saved next is not a copy of the accumulator (the incoming resolver or an earlier directive closure)"
	}
	// after the loop: middleware(ctx, next) exactly once, not in the loop
	n := 0
	for _, b := range fn.Blocks {
		for _, in := range b.Instrs {
			call, ok := in.(*ssa.Call)
			if !ok {
				continue
			}
			if !isMiddlewareCall(call) {
				// operation-level middleware (_queryMiddleware, …) invokes the accumulated chain itself: `tmp, err := next(ctx)`
				if call.Call.IsInvoke() || call.Call.StaticCallee() != nil {
					continue
				}
				if _, isB := call.Call.Value.(*ssa.Builtin); isB {
					continue
				}
				hp3, hs3, ok3 := isAccumulator(call.Call.Value)
				if !ok3 || !hp3 || !hs3 {
					continue
				}
				n++
				if an.CanReach(call, call) {
					return "the accumulated chain is invoked inside the loop"
				}
				continue
			}
			n++
			if an.CanReach(call, call) {
				return "the resolver middleware is invoked inside the loop"
			}
			last := call.Call.Args[len(call.Call.Args)-1]
			hp2, hs2, ok2 := isAccumulator(last)
			if !ok2 || !hp2 || !hs2 {
				return "the resolver middleware is not given the accumulated chain"
			}
		}
	}
	if n != 1 {
		return sprintf("the resolver middleware is invoked %d times", n)
	}
	return ""
}
