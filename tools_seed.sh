#!/bin/bash
# usage: tools_seed.sh <seed-worktree> <name> <property>[,<property>...]
# Copies a sub-agent's SEED directory to /verif/seeded/<name>, applies its patch to /repo, runs the named
# properties' quick checks, and reverts /repo.  Prints whether the checks caught it.
set -u
wt=$1; name=$2; props=$3
dst=/verif/seeded/$name
mkdir -p $dst
cp -r $wt/SEED/patch.diff $wt/SEED/meta.json $dst/ 2>/dev/null
rm -rf $dst/demo; cp -r $wt/SEED/demo $dst/demo 2>/dev/null
cd /repo
if [ -n "$(git status --porcelain)" ]; then echo "/repo not clean"; exit 2; fi
git apply --check $dst/patch.diff || { echo "patch does not apply"; exit 2; }
git apply $dst/patch.diff
out=$(cd /verif && VERIF_OUT=/dev/shm/seed-out ./run.sh check $props quick 2>&1)
rc=$?
git apply -R $dst/patch.diff
git status --porcelain | head -3
echo "$out" | grep -E "^(VIOLATED|UNDECIDED|ANALYSIS-FAILURE|OK property|VIOLATION)" | cut -c1-260 | head -12
echo "exit=$rc"
