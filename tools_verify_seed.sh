#!/bin/bash
# usage: tools_verify_seed.sh <worktree> '<demo command run from the worktree>' [full]
# Confirms a seeded change: builds with the patch, demo FAILS with it and PASSES without it; with "full" also runs
# the whole existing suite with the patch (ignoring the three network-only playground *_Integrity tests).
wt=$1; demo=$2; full=${3:-}
cd $wt || exit 2
export GOFLAGS=-mod=mod GOPROXY=off
git checkout -q -- . ; git clean -fdq -e SEED
git apply SEED/patch.diff || { echo "RESULT patch-does-not-apply"; exit 1; }
go build ./... || { echo "RESULT build-fails"; git apply -R SEED/patch.diff; exit 1; }
if [ -n "$full" ]; then
  go test -mod=mod -vet=off -count=1 $(go list ./... | grep -v /SEED/) 2>&1 | grep -E "^(FAIL|---)" | grep -v "_Integrity\|graphql/playground" > /dev/shm/suite-$(basename $wt).log
  suite=$(wc -l < /dev/shm/suite-$(basename $wt).log)
else suite=skipped; fi
bash -c "$demo" > /dev/shm/demo-with-$(basename $wt).log 2>&1; with=$?
git checkout -q -- . ; git clean -fdq -e SEED
bash -c "$demo" > /dev/shm/demo-without-$(basename $wt).log 2>&1; without=$?
git checkout -q -- . ; git clean -fdq -e SEED
echo "RESULT $(basename $wt) demo_with_patch_exit=$with demo_without_patch_exit=$without suite_failures=$suite"
