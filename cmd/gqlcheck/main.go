// gqlcheck decides structural necessary conditions of the gqlgen properties C01..C20 by static
// analysis of /repo's current working tree (see /verif/DESIGN.md).
package main

import (
	"encoding/json"
	"flag"
	"fmt"
	"os"
	"path/filepath"
	"runtime/debug"
	"sort"
	"strconv"
	"strings"
	"time"

	"verif/internal/ob"
	"verif/internal/pipeline"
	"verif/internal/rules"
)

func verifDir() string {
	if d := os.Getenv("VERIF_DIR"); d != "" {
		return d
	}
	exe, err := os.Executable()
	if err == nil {
		d := filepath.Dir(filepath.Dir(exe))
		if _, err := os.Stat(filepath.Join(d, "properties.jsonl")); err == nil {
			return d
		}
	}
	wd, _ := os.Getwd()
	return wd
}

func main() {
	if len(os.Args) < 2 {
		fmt.Fprintln(os.Stderr, "usage: gqlcheck check <property|all> [quick|thorough] | list")
		os.Exit(2)
	}
	switch os.Args[1] {
	case "list":
		for _, id := range rules.IDs() {
			fmt.Println(id)
		}
	case "manifest":
		writeManifest()
	case "check":
		fs := flag.NewFlagSet("check", flag.ExitOnError)
		dump := fs.Bool("dump", false, "print every obligation")
		fs.Parse(os.Args[2:])
		args := fs.Args()
		if len(args) < 1 {
			fmt.Fprintln(os.Stderr, "usage: gqlcheck check <property|all|C01,C02> [quick|thorough]")
			os.Exit(2)
		}
		tier := os.Getenv("VERIF_TIER")
		if len(args) > 1 {
			tier = args[1]
		}
		if tier != "thorough" {
			tier = "quick"
		}
		os.Exit(check(args[0], tier, *dump))
	default:
		fmt.Fprintln(os.Stderr, "unknown command", os.Args[1])
		os.Exit(2)
	}
}

func check(which, tier string, dump bool) (code int) {
	start := time.Now()
	seed, _ := strconv.Atoi(os.Getenv("VERIF_SEED"))
	vdir := verifDir()
	var ids []string
	if which == "all" {
		ids = rules.IDs()
	} else {
		for _, id := range strings.Split(which, ",") {
			if rules.Get(id) == nil {
				fmt.Fprintf(os.Stderr, "unknown property %s\n", id)
				return 2
			}
			ids = append(ids, id)
		}
	}
	findings, err := ob.LoadFindings(filepath.Join(vdir, "known_findings.txt"))
	if err != nil {
		fmt.Fprintln(os.Stderr, err)
		return 2
	}

	// analysis failure (before any rule ran) fails every requested property, loudly
	failAll := func(msg string) int {
		for _, id := range ids {
			r := ob.NewReport(id)
			r.Fail("%s", msg)
			p := rules.Get(id)
			r.Finish(vdir, tier, seed, time.Since(start).Seconds(), findings, nil, p.Assumptions, p.FullExplanation())
		}
		return 1
	}
	defer func() {
		if e := recover(); e != nil {
			fmt.Fprintf(os.Stderr, "panic in analysis: %v\n%s\n", e, debug.Stack())
			code = failAll(fmt.Sprintf("analysis panicked: %v", e))
		}
	}()

	needGen := false
	patterns := map[string]bool{}
	for _, id := range ids {
		p := rules.Get(id)
		needGen = needGen || p.NeedGen
		for _, pat := range p.Runtime {
			patterns[pat] = true
		}
	}
	snap, err := pipeline.NewSnapshot(false)
	if err != nil {
		return failAll("snapshot failed: " + err.Error())
	}
	defer snap.Close()
	if err := snap.AddFixtures(vdir); err != nil {
		return failAll(err.Error())
	}
	patterns["./verif_fixtures/..."] = true
	if err := snap.AddProbes(vdir); err != nil {
		return failAll(err.Error())
	}

	var specs []rules.GenSpec
	var mats []*pipeline.Materialised
	if needGen {
		specs = rules.GenSet(tier)
		cfgs := make([]pipeline.GenConfig, len(specs))
		for i, s := range specs {
			cfgs[i] = s.GenConfig
			patterns["./"+s.ExecPkg] = true
		}
		t0 := time.Now()
		mats, err = snap.Materialise(cfgs)
		if err != nil {
			return failAll("materialise: " + err.Error())
		}
		fmt.Printf("materialised %d configurations in %.1fs\n", len(mats), time.Since(t0).Seconds())
	}
	var pats []string
	for p := range patterns {
		pats = append(pats, p)
	}
	sort.Strings(pats)
	t0 := time.Now()
	w, err := pipeline.Load(snap, pats, "")
	if err != nil {
		return failAll("load: " + err.Error())
	}
	w.Mats = mats
	nfn := 0
	if w.Prog != nil {
		nfn = len(w.AllFuncs())
	}
	fmt.Printf("loaded %d root packages (%d total), %d functions in %.1fs\n", len(w.Pkgs), len(w.All), nfn, time.Since(t0).Seconds())

	var gens []*rules.GenPkg
	for i, s := range specs {
		gp := &rules.GenPkg{Name: s.Name, Path: pipeline.Module + "/" + s.ExecPkg, Mat: mats[i], Fed: s.Fed, Spec: s}
		if w.Prog != nil {
			gp.SSA = w.Pkg(gp.Path)
		}
		gens = append(gens, gp)
	}

	var w386 *pipeline.World
	alt386 := func() *pipeline.World {
		if w386 == nil {
			var err error
			w386, err = pipeline.Load(snap, []string{"./graphql"}, "386")
			if err != nil || w386.Prog == nil {
				fmt.Fprintln(os.Stderr, "GOARCH=386 load failed:", err)
				return nil
			}
			fmt.Printf("loaded ./graphql for GOARCH=386 (%d packages)\n", len(w386.All))
		}
		return w386
	}
	worst := 0
	for _, id := range ids {
		p := rules.Get(id)
		r := ob.NewReport(id)
		ownsMaterialisation := id == "C17" || id == "C18" || id == "C19" // their materialise+typecheck rule reports generator and type errors as violations
		if len(w.TypeErrs) > 0 && !ownsMaterialisation {
			n := len(w.TypeErrs)
			if n > 5 {
				n = 5
			}
			r.Fail("type errors in the analysed program (%d), e.g. %s", len(w.TypeErrs), strings.Join(w.TypeErrs[:n], " | "))
		} else {
			if p.NeedGen && !ownsMaterialisation {
				for _, g := range gens {
					if g.Mat.Err != "" {
						r.Fail("materialise:%s failed: %s", g.Name, firstLine(g.Mat.Err))
					} else if g.SSA == nil {
						r.Fail("materialise:%s: package %s not in the loaded program", g.Name, g.Path)
					}
				}
			}
			if len(r.Failures) == 0 {
				ctx := &rules.Ctx{W: w, R: r, Tier: tier, Gen: gens, Alt386: alt386}
				func() {
					defer func() {
						if e := recover(); e != nil {
							fmt.Fprintf(os.Stderr, "panic in rules of %s: %v\n%s\n", id, e, debug.Stack())
							r.Fail("analysis panicked: %v", e)
						}
					}()
					p.Run(ctx)
					rules.Round3Generic(ctx, id)
				}()
			}
		}
		if dump {
			for _, o := range r.Obs {
				fmt.Printf("  %-10s %s @%s  %s\n", o.Status, o.Key, o.Pos, o.Detail)
			}
		}
		cov := map[string]any{
			"packages_loaded": len(w.All),
			"module_packages": len(w.ModulePackages()),
			"functions":       nfn,
			"patterns":        pats,
			"not_decided":     p.NotDecided,
			"materialised":    matSummary(gens),
			"trusted_base":    []string{"go/types, go/ssa, go/callgraph (x/tools v0.29.0)", "the Go toolchain that loads the snapshot", "documented contracts of sync, context, net/http, gorilla/websocket, gqlparser"},
			"checker_cmd":     "./run.sh check " + id + " " + tier,
			"analysed_tree":   "rsync copy of /repo working tree taken at start of this run",
		}
		c := r.Finish(vdir, tier, seed, time.Since(start).Seconds(), findings, cov, p.Assumptions, p.FullExplanation())
		if c > worst {
			worst = c
		}
	}
	return worst
}

func firstLine(s string) string {
	if i := strings.Index(s, "\n"); i >= 0 {
		return s[:i]
	}
	return s
}

func matSummary(gens []*rules.GenPkg) []map[string]any {
	var out []map[string]any
	for _, g := range gens {
		m := map[string]any{"name": g.Name, "package": g.Path, "files": g.Mat.Files}
		if g.Mat.Err != "" {
			m["error"] = firstLine(g.Mat.Err)
		}
		out = append(out, m)
	}
	return out
}

func writeManifest() {
	type lvl struct {
		Category  string `json:"category"`
		Text      string `json:"text"`
		DesignRef string `json:"design_ref"`
	}
	type chk struct {
		PropertyID string `json:"property_id"`
		Quick      string `json:"quick_cmd"`
		Thorough   string `json:"thorough_cmd"`
		Evidence   string `json:"evidence_file"`
		Replay     string `json:"replay_cmd_template"`
		Engine     string `json:"engine"`
		Level      lvl    `json:"level_claimed"`
		Note       string `json:"level_note"`
		Technique  string `json:"technique"`
	}
	type na struct {
		PropertyID string `json:"property_id"`
		Reason     string `json:"reason"`
	}
	var checks []chk
	for _, id := range rules.IDs() {
		p := rules.Get(id)
		text := p.LevelText
		if text == "" {
			text = p.FullExplanation()
		}
		tech := p.Technique
		if tech == "" {
			tech = "static analysis: custom rules over go/types + go/ssa (dominance, CFG paths, call graph) of the snapshot and of generator output"
		}
		checks = append(checks, chk{
			PropertyID: id, Quick: "./run.sh check " + id + " quick", Thorough: "./run.sh check " + id + " thorough",
			Evidence: "evidence/" + id + ".json", Replay: "./run.sh replay {path}", Engine: "gqlcheck",
			Level:     lvl{Category: "other", Text: text, DesignRef: "DESIGN.md §3 " + id},
			Note:      "Decides only the structural necessary conditions named in the text, on every path of the analysed code; NOT decided: " + p.NotDecided + ". Trusted: go/types, go/ssa, go/callgraph (x/tools v0.29.0), the Go toolchain, documented contracts of the standard library, gorilla/websocket and gqlparser; user code is opaque. " + strings.Join(p.Assumptions, "; "),
			Technique: tech,
		})
	}
	nas := []na{}
	var naIDs []string
	for id := range rules.NotApplicable {
		naIDs = append(naIDs, id)
	}
	sort.Strings(naIDs)
	for _, id := range naIDs {
		if rules.Get(id) == nil {
			nas = append(nas, na{id, rules.NotApplicable[id]})
		}
	}
	m := map[string]any{
		"version":   1,
		"setup_cmd": "./run.sh build",
		"hooks": map[string]any{
			"guard":            "verif",
			"enable":           "no source hooks are needed: the checks analyse the unmodified source (go/packages on a snapshot of /repo); the tag 'verif' is reserved and unused",
			"baseline_off_cmd": "cd /repo && go test -mod=mod -json -vet=off -count=1 -timeout 25m ./...",
			"source_commits":   []string{},
			"add_only":         true,
		},
		"engines": []map[string]any{{
			"name": "gqlcheck", "path": "cmd/gqlcheck", "serves_properties": rules.IDs(),
			"kind_free_text": "repository-specific static analyser: snapshot of /repo, materialisation of generator output from the current templates, go/packages + go/ssa + call graph, one obligation per (rule, construct)",
		}},
		"checks":         checks,
		"not_applicable": nas,
		"notes":          "All claims are level 'other': a structural necessary condition of the property holds on every path of the analysed code; see DESIGN.md for what each check does not decide. known_findings.txt lists genuine defects that are recorded rather than repaired.",
	}
	b, _ := json.MarshalIndent(m, "", " ")
	os.WriteFile(filepath.Join(verifDir(), "MANIFEST.json"), append(b, '\n'), 0o644)
}
