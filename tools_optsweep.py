#!/usr/bin/env python3
"""Exploration aid (not a registered check): generate every probe under each single boolean option and a few combinations,
then type-check the output with `go vet`.  Failures are candidates for triage (a genuine generator defect, or an option
combination gqlgen documents as unsupported); whatever is confirmed becomes a probe overlay in genconfigs.go.
usage: tools_optsweep.py [repo-dir] [probe ...]"""
import os, subprocess, sys, shutil, tempfile, itertools, concurrent.futures as cf
repo = sys.argv[1] if len(sys.argv) > 1 else '/repo'
probes = sys.argv[2:] or ['customroots', 'naming', 'noargs', 'models']
OPTS = ['omit_slice_element_pointers','omit_getters','omit_interface_checks','omit_complexity','omit_gqlgen_file_notice',
 'omit_gqlgen_version_in_file_notice','omit_root_models','omit_resolver_fields','omit_panic_handler',
 'use_function_syntax_for_execution_context','call_argument_directives_with_null','struct_fields_always_pointers=false',
 'return_pointers_in_unmarshalinput','resolvers_always_return_pointers','nullable_input_omittable',
 'enable_model_json_omitempty_tag','enable_model_json_omitzero_tag','skip_validation']
env = dict(os.environ, GOFLAGS='-mod=mod -trimpath', GOPROXY='off', GOWORK='off')
base = tempfile.mkdtemp(prefix='optsweep-', dir='/dev/shm')
subprocess.check_call(['rsync','-a','--exclude','.git','--exclude','/_examples',repo+'/',base+'/repo/'])
subprocess.check_call(['rsync','-a','/verif/probes/',base+'/repo/verif_probes/'])
for r,_,fs in os.walk(base+'/repo/verif_probes'):
    for f in fs:
        if f.endswith('.go.in'): os.rename(os.path.join(r,f), os.path.join(r,f[:-3]))
gen = base+'/gen'
subprocess.check_call(['go','build','-o',gen,'./testdata/gqlgen.go'],cwd=base+'/repo',env=env)
def combos():
    if os.environ.get('OPTSWEEP_PAIRS'):
        for a, b in itertools.combinations(OPTS, 2): yield (a, b)
        return
    for o in OPTS: yield (o,)
    yield tuple(OPTS)
    yield tuple(o for o in OPTS if o not in ('struct_fields_always_pointers=false',))
    yield ('omit_slice_element_pointers','struct_fields_always_pointers=false','resolvers_always_return_pointers')
    yield ('nullable_input_omittable','return_pointers_in_unmarshalinput','struct_fields_always_pointers=false')
    yield ('use_function_syntax_for_execution_context','omit_panic_handler','omit_complexity')
def run(job):
    probe, opts, n = job
    if probe.startswith('ts:'):
        src = base+'/repo/codegen/testserver/'+probe[3:]; name = '%s_o%d' % (probe[3:], n); d = base+'/repo/codegen/testserver/'+name
        oldimp, newimp = 'codegen/testserver/'+probe[3:], 'codegen/testserver/'+name
    else:
        src = base+'/repo/verif_probes/'+probe; name = '%s_o%d' % (probe, n); d = base+'/repo/verif_probes/'+name
        oldimp, newimp = 'verif_probes/'+probe, 'verif_probes/'+name
    shutil.copytree(src, d, ignore=shutil.ignore_patterns('*_test.go'))
    for r,_,fs in os.walk(d):
        for f in fs:
            if f.endswith(('.go','.yml','.graphqls','.graphql')):
                p=os.path.join(r,f); s=open(p).read()
                for tail in ('/','"','\n'): s=s.replace(oldimp+tail,newimp+tail)
                open(p,'w').write(s)
    with open(d+'/gqlgen.yml','a') as f:
        f.write('\n'+''.join('%s: %s\n' % ((o.split('=')[0], o.split('=')[1]) if '=' in o else (o,'true')) for o in opts))
    args=[gen,'-config','gqlgen.yml']
    if os.path.exists(d+'/stub.go'): args+=['-stub','stub.go']
    if os.path.exists(d+'/resolver.go') and probe.startswith('ts:'): os.remove(d+'/resolver.go')
    p = subprocess.run(args,cwd=d,env=env,capture_output=True,text=True)
    if p.returncode != 0:
        return (name, opts, 'GENERATE', (p.stdout+p.stderr)[-1500:])
    p = subprocess.run(['go','vet','./...'],cwd=d,env=env,capture_output=True,text=True)
    if p.returncode != 0:
        return (name, opts, 'TYPECHECK', (p.stdout+p.stderr)[:1500])
    return (name, opts, 'ok', '')
jobs=[(p,o,i) for p in probes for i,o in enumerate(combos())]
bad=0
with cf.ThreadPoolExecutor(int(os.environ.get('OPTSWEEP_JOBS','6'))) as ex:
    for name,opts,st,msg in ex.map(run,jobs):
        if st!='ok':
            bad+=1
            print('==',name,st,' '.join(opts)); print(msg)
        else: print('ok',name,' '.join(opts)[:100])
shutil.rmtree(base)
print(len(jobs),'runs,',bad,'failed')
